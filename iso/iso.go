// Package iso runs families of potentially fatal cases (decoders fed mutated bytes) in worker
// sub-processes under an address-space limit: a mutated count can make a decoder allocate tens of
// gigabytes, which is an out-of-memory kill of the whole process, not a recoverable panic. The
// worker announces every case before running it, so a death is attributed exactly; deaths by
// allocation failure are counted (allocation amplification is not judged, DESIGN section 6), any
// other death (stack overflow, fatal error) and any watchdog expiry is re-run alone and reported
// if it reproduces.
package iso

import (
	"bufio"
	"bytes"
	"encoding/binary"
	"encoding/json"
	"fmt"
	"io"
	"os"
	"os/exec"
	"runtime"
	"runtime/debug"
	"sort"
	"strconv"
	"strings"
	"sync"
	"sync/atomic"
	"syscall"
	"time"
)

// Finding is one property failure found by a case.
type Finding struct {
	Keys   map[string]string `json:"keys"`
	What   string            `json:"what"`
	Replay interface{}       `json:"replay"`
}

// Family is a finite set of cases addressed by (item, mutant).
type Family struct {
	Name string
	// Load prepares the family in a worker (e.g. reads the corpus file); called once.
	Load func()
	// Items is the number of corpus items; Mutants(item) the number of cases of an item.
	Items   func() int
	Mutants func(item int) int
	// Run executes one case; it must recover panics itself and report them as findings.
	Run func(item, mut int) []Finding
}

var families = map[string]*Family{}

func Register(f *Family) { families[f.Name] = f }

func IsWorker() bool { return len(os.Args) > 2 && os.Args[1] == "-iso-worker" }

// WorkerMain: argv = -iso-worker <family> <memlimit bytes>; reads "item lo hi\n" lines.
func WorkerMain() {
	f := families[os.Args[2]]
	if f == nil {
		fmt.Fprintln(os.Stderr, "unknown family", os.Args[2])
		os.Exit(3)
	}
	if f.Load != nil {
		f.Load()
	}
	// Memory discipline. A mutated count makes a decoder allocate up to 2 GiB that it never touches. With the
	// collector running, such a block is freed and its (now "dirty") address range reused by the next huge
	// allocation, which Go then has to zero - seconds per case. With the collector OFF every huge allocation
	// takes fresh, untouched address space (microseconds, no physical memory). The worker therefore never
	// collects; it asks to be restarted once it has mapped more than the allowance, and a hard address-space
	// limit above that catches a single absurd request.
	var allow uint64 = 24 << 30
	if len(os.Args) > 3 {
		if a, err := strconv.ParseUint(os.Args[3], 10, 64); err == nil && a > 0 {
			allow = a
		}
	}
	if os.Getenv("VERIF_ISO_GCOFF") != "" {
		debug.SetGCPercent(-1)
	}
	lim := vsize() + allow
	_ = syscall.Setrlimit(syscall.RLIMIT_AS, &syscall.Rlimit{Cur: lim, Max: lim})
	ncases := 0
	// per-case budget: a case that runs longer than caseBudget is CPU/memory
	// amplification (e.g. a RESULT declaring 2^31 rows of 0 columns loops 2^31 times); the worker reports
	// it and exits. The parent re-runs such cases alone under the long watchdog before calling it a hang.
	var caseStart int64
	var inCase int32
	budget := int64(400 * time.Millisecond)
	if b, err := strconv.Atoi(os.Getenv("VERIF_ISO_CASE_BUDGET_MS")); err == nil && b > 0 {
		budget = int64(b) * int64(time.Millisecond)
	}
	go func() {
		for {
			time.Sleep(100 * time.Millisecond)
			if atomic.LoadInt32(&inCase) == 0 {
				continue
			}
			if time.Now().UnixNano()-atomic.LoadInt64(&caseStart) > budget {
				_, _ = os.Stdout.Write([]byte{'T'})
				os.Exit(0)
			}
		}
	}()
	in := bufio.NewReader(os.Stdin)
	out := os.Stdout
	var hdr [9]byte
	for {
		line, err := in.ReadString('\n')
		if err != nil {
			return
		}
		var item, lo, hi int
		if _, err := fmt.Sscanf(line, "%d %d %d", &item, &lo, &hi); err != nil {
			continue
		}
		for m := lo; m < hi; m++ {
			hdr[0] = 'S'
			binary.LittleEndian.PutUint32(hdr[1:], uint32(item))
			binary.LittleEndian.PutUint32(hdr[5:], uint32(m))
			_, _ = out.Write(hdr[:])
			atomic.StoreInt64(&caseStart, time.Now().UnixNano())
			atomic.StoreInt32(&inCase, 1)
			res := f.Run(item, m)
			atomic.StoreInt32(&inCase, 0)
			ncases++
			if ncases%32 == 0 {
				var ms runtime.MemStats
				runtime.ReadMemStats(&ms)
				if os.Getenv("VERIF_ISO_GCOFF") != "" && (ms.Sys > allow*3/4 || ms.HeapAlloc > 1<<30) {
					// recycle this process: the parent continues with the next case in a fresh worker
					flushFindings(out, res)
					_, _ = out.Write([]byte{'X'})
					os.Exit(0)
				}
			}
			flushFindings(out, res)
		}
		_, _ = out.Write([]byte{'D'})
	}
}

// SlowKills counts cases stopped by the per-case budget (CPU / memory amplification); SlowCases lists them.
var SlowKills int64
var SlowCases [][2]int
var slowMu sync.Mutex

// Skipped counts cases a family declined to run (declared sizes that only measure allocation amplification).
var Skipped int64

func flushFindings(out *os.File, res []Finding) {
	for _, fd := range res {
		if fd.Keys["kind"] == "skipped-amplification" {
			_, _ = out.Write([]byte{'K'})
			continue
		}
		b, _ := json.Marshal(fd)
		rec := make([]byte, 5+len(b))
		rec[0] = 'V'
		binary.LittleEndian.PutUint32(rec[1:], uint32(len(b)))
		copy(rec[5:], b)
		_, _ = out.Write(rec)
	}
}

// Stats of a family run.
type Stats struct {
	Cases      int64
	AllocKills int64
	Recycles   int64
	Fatal      int64
	Hangs      int64
	Findings   []Finding
	Truncated  bool
}

type proc struct {
	cmd    *exec.Cmd
	stdin  io.WriteCloser
	stdout *bufio.Reader
	stderr *bytes.Buffer
}

func start(fam string, mem uint64) (*proc, error) {
	cmd := exec.Command(os.Args[0], "-iso-worker", fam, strconv.FormatUint(mem, 10))
	cmd.Env = append(os.Environ(), "GOMAXPROCS=2")
	in, err := cmd.StdinPipe()
	if err != nil {
		return nil, err
	}
	out, err := cmd.StdoutPipe()
	if err != nil {
		return nil, err
	}
	eb := &bytes.Buffer{}
	cmd.Stderr = &capWriter{b: eb}
	if err := cmd.Start(); err != nil {
		return nil, err
	}
	return &proc{cmd, in, bufio.NewReaderSize(out, 1<<16), eb}, nil
}

type capWriter struct {
	mu sync.Mutex
	b  *bytes.Buffer
}

func (c *capWriter) Write(p []byte) (int, error) {
	c.mu.Lock()
	defer c.mu.Unlock()
	if c.b.Len() < 64<<10 {
		c.b.Write(p)
	}
	return len(p), nil
}

func (p *proc) kill() {
	if p.cmd.Process != nil {
		_ = p.cmd.Process.Kill()
		_, _ = p.cmd.Process.Wait()
	}
}

// runRange executes cases [lo,hi) of item in p. It returns the number executed, findings, and
// whether the worker died (diedAt = the case in progress) or hung.
func (p *proc) runRange(item, lo, hi int, watchdog time.Duration) (n int, fs []Finding, died bool, hung bool, diedAt int) {
	if _, err := fmt.Fprintf(p.stdin, "%d %d %d\n", item, lo, hi); err != nil {
		return 0, nil, true, false, lo
	}
	cur := lo - 1
	type rec struct {
		kind byte
		m    int
		f    *Finding
		err  error
	}
	ch := make(chan rec, 256)
	go func() {
		for {
			k, err := p.stdout.ReadByte()
			if err != nil {
				ch <- rec{err: err}
				return
			}
			switch k {
			case 'S':
				var b [8]byte
				if _, err := io.ReadFull(p.stdout, b[:]); err != nil {
					ch <- rec{err: err}
					return
				}
				ch <- rec{kind: 'S', m: int(binary.LittleEndian.Uint32(b[4:]))}
			case 'V':
				var l [4]byte
				if _, err := io.ReadFull(p.stdout, l[:]); err != nil {
					ch <- rec{err: err}
					return
				}
				buf := make([]byte, binary.LittleEndian.Uint32(l[:]))
				if _, err := io.ReadFull(p.stdout, buf); err != nil {
					ch <- rec{err: err}
					return
				}
				var f Finding
				_ = json.Unmarshal(buf, &f)
				ch <- rec{kind: 'V', f: &f}
			case 'K':
				ch <- rec{kind: 'K'}
			case 'X':
				ch <- rec{kind: 'X'}
				return
			case 'T':
				ch <- rec{kind: 'T'}
				return
			case 'D':
				ch <- rec{kind: 'D'}
				return
			}
		}
	}()
	timer := time.NewTimer(watchdog)
	defer timer.Stop()
	for {
		select {
		case r := <-ch:
			if r.err != nil {
				return cur - lo + 1, fs, true, false, cur
			}
			switch r.kind {
			case 'S':
				cur = r.m
				if !timer.Stop() {
					select {
					case <-timer.C:
					default:
					}
				}
				timer.Reset(watchdog)
			case 'V':
				fs = append(fs, *r.f)
			case 'K':
				atomic.AddInt64(&Skipped, 1)
			case 'X':
				return cur - lo + 1, fs, true, false, -1 - cur // recycled after finishing case cur
			case 'T':
				atomic.AddInt64(&SlowKills, 1)
				slowMu.Lock()
				SlowCases = append(SlowCases, [2]int{item, cur})
				slowMu.Unlock()
				return cur - lo + 1, fs, true, false, -1 - cur // over budget in case cur: skip it
			case 'D':
				return hi - lo, fs, false, false, 0
			}
		case <-timer.C:
			p.kill()
			return cur - lo + 1, fs, false, true, cur
		}
	}
}

func classify(stderr string) string {
	switch {
	case strings.Contains(stderr, "out of memory") || strings.Contains(stderr, "cannot allocate") || strings.Contains(stderr, "makeslice: len out of range") && false:
		return "oom"
	case strings.Contains(stderr, "stack overflow") || strings.Contains(stderr, "goroutine stack exceeds"):
		return "stack-overflow"
	case strings.Contains(stderr, "fatal error"):
		return "fatal"
	}
	return "died"
}

func site(stderr string) string {
	for _, l := range strings.Split(stderr, "\n") {
		if strings.Contains(l, "go-cassandra-native-protocol/") && strings.Contains(l, "(") && !strings.HasPrefix(strings.TrimSpace(l), "/") {
			l = strings.TrimSpace(l)
			if i := strings.LastIndex(l, "/"); i >= 0 {
				l = l[i+1:]
			}
			if i := strings.Index(l, "("); i > 0 {
				l = l[:i]
			}
			return l
		}
	}
	return "?"
}

// Run executes the whole family on all cores. describe renders a case for reports.
func Run(fam *Family, mem uint64, watchdog time.Duration, deadline time.Time, describe func(item, mut int) interface{}) (*Stats, error) {
	if fam.Load != nil {
		fam.Load()
	}
	st := &Stats{}
	var mu sync.Mutex
	type job struct{ item, lo, hi int }
	var jobs []job
	const chunk = 512
	for it := 0; it < fam.Items(); it++ {
		n := fam.Mutants(it)
		for lo := 0; lo < n; lo += chunk {
			hi := lo + chunk
			if hi > n {
				hi = n
			}
			jobs = append(jobs, job{it, lo, hi})
		}
	}
	// round-robin over the items: a deadline then cuts the later mutants of every item rather than
	// all mutants of the later items (whole kinds of input)
	sort.SliceStable(jobs, func(a, b int) bool { return jobs[a].lo < jobs[b].lo })
	var next int64
	var wg sync.WaitGroup
	t0 := time.Now()
	stop := make(chan struct{})
	if os.Getenv("VERIF_PROGRESS") != "" {
		go func() {
			for {
				select {
				case <-stop:
					return
				case <-time.After(10 * time.Second):
					mu.Lock()
					fmt.Fprintf(os.Stderr, "[iso %s] %.0fs jobs %d/%d cases %d allockills %d fatal %d hangs %d\n", fam.Name, time.Since(t0).Seconds(), atomic.LoadInt64(&next), len(jobs), st.Cases, st.AllocKills, st.Fatal, st.Hangs)
					mu.Unlock()
				}
			}
		}()
	}
	defer close(stop)
	var firstErr error
	nw := runtime.NumCPU()
	if v, err := strconv.Atoi(os.Getenv("VERIF_ISO_WORKERS")); err == nil && v > 0 {
		nw = v
	}
	if nw > len(jobs) {
		nw = len(jobs)
	}
	for w := 0; w < nw; w++ {
		wg.Add(1)
		go func() {
			defer wg.Done()
			var p *proc
			defer func() {
				if p != nil {
					p.kill()
				}
			}()
			for {
				i := int(atomic.AddInt64(&next, 1)) - 1
				if i >= len(jobs) {
					return
				}
				if !deadline.IsZero() && time.Now().After(deadline) {
					mu.Lock()
					st.Truncated = true
					mu.Unlock()
					return
				}
				j := jobs[i]
				lo := j.lo
				for lo < j.hi {
					if p == nil {
						var err error
						if p, err = start(fam.Name, mem); err != nil {
							mu.Lock()
							firstErr = err
							mu.Unlock()
							return
						}
					}
					tr := time.Now()
					n, fs, died, hung, at := p.runRange(j.item, lo, j.hi, watchdog)
					if os.Getenv("VERIF_ISO_DEBUG") != "" {
						fmt.Fprintf(os.Stderr, "[iso-debug] item %d range %d..%d ran %d cases in %v died=%v hung=%v at=%d\n", j.item, lo, j.hi, n, time.Since(tr), died, hung, at)
					}
					mu.Lock()
					st.Cases += int64(n)
					st.Findings = append(st.Findings, fs...)
					mu.Unlock()
					if !died && !hung {
						break
					}
					if at < -0 && died && at <= -1 {
						// voluntary recycle after case (-1-at): nothing to classify
						done := -1 - at
						_ = p.cmd.Wait()
						p.kill()
						p = nil
						mu.Lock()
						st.Recycles++
						mu.Unlock()
						lo = done + 1
						continue
					}
					// the worker is gone: classify, confirm, continue after the culprit
					if at < lo {
						at = lo
					}
					_ = p.cmd.Wait()
					errText := p.stderr.String()
					p.kill()
					p = nil
					kind := classify(errText)
					if hung {
						kind = "hang"
					}
					if kind == "oom" {
						mu.Lock()
						st.AllocKills++
						mu.Unlock()
					} else {
						// believed only if it reproduces alone
						q, err := start(fam.Name, mem)
						if err == nil {
							_, _, d2, h2, _ := q.runRange(j.item, at, at+1, watchdog)
							_ = q.cmd.Wait()
							e2 := q.stderr.String()
							q.kill()
							k2 := classify(e2)
							if h2 {
								k2 = "hang"
							}
							if (d2 || h2) && k2 == kind {
								mu.Lock()
								if kind == "hang" {
									st.Hangs++
								} else {
									st.Fatal++
								}
								st.Findings = append(st.Findings, Finding{Keys: map[string]string{"kind": kind, "family": fam.Name, "site": site(e2)}, What: fmt.Sprintf("%s: case (%d,%d) kills the process (%s), reproduced alone:\n%s", fam.Name, j.item, at, kind, clip(e2)), Replay: describe(j.item, at)})
								mu.Unlock()
							} else if k2 == "oom" {
								mu.Lock()
								st.AllocKills++
								mu.Unlock()
							}
						}
					}
					lo = at + 1
				}
			}
		}()
	}
	wg.Wait()
	return st, firstErr
}

func clip(s string) string {
	if len(s) > 1500 {
		return s[:1500] + "…"
	}
	return s
}

// Lookup returns a registered family.
func Lookup(name string) *Family { return families[name] }

// vsize returns the virtual size of this process in bytes.
func vsize() uint64 {
	b, err := os.ReadFile("/proc/self/statm")
	if err != nil {
		return 2 << 30
	}
	var pages uint64
	fmt.Sscanf(string(b), "%d", &pages)
	return pages * uint64(os.Getpagesize())
}
