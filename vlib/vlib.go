// Package vlib is the shared plumbing of the checks: tier/seed, evidence files, violation
// classification against KNOWN_FINDINGS.jsonl, replay artefacts, and a parallel-for.
package vlib

import (
	"bufio"
	"crypto/sha1"
	"encoding/json"
	"fmt"
	"os"
	"path/filepath"
	"runtime"
	"sort"
	"strconv"
	"strings"
	"sync"
	"time"
)

// Root is the /verif directory.
var Root = func() string {
	if r := os.Getenv("VERIF_ROOT"); r != "" {
		return r
	}
	return "/verif"
}()

// Check accumulates the result of one run of one property check.
type Check struct {
	ID          string
	Tier        string
	Seed        int64
	Level       string
	Cov         map[string]interface{}
	Assumptions []string
	start       time.Time
	mu          sync.Mutex
	seen        map[string]bool
	known       []knownEntry
	knownHit    map[int]bool
	nViol       int
	nKnown      int
	samples     []interface{}
	deadline    time.Time
	Exhaustive  bool
	caps        []string
}

type knownEntry struct {
	Property string            `json:"property"`
	Status   string            `json:"status"` // "open" or "fixed"
	Match    map[string]string `json:"match"`
	What     string            `json:"what"`
	Commit   string            `json:"commit,omitempty"`
}

// New starts a check. Tier comes from argv[1] (quick|thorough) or VERIF_TIER.
func New(id, level string) *Check {
	c := &Check{ID: id, Level: level, Cov: map[string]interface{}{}, start: time.Now(), seen: map[string]bool{}, knownHit: map[int]bool{}, Exhaustive: true}
	c.Tier = "quick"
	if t := os.Getenv("VERIF_TIER"); t == "thorough" || t == "quick" {
		c.Tier = t
	}
	for _, a := range os.Args[1:] {
		if a == "quick" || a == "thorough" {
			c.Tier = a
		}
	}
	if s := os.Getenv("VERIF_SEED"); s != "" {
		c.Seed, _ = strconv.ParseInt(s, 10, 64)
	}
	budget := 240 * time.Second
	if c.Tier == "thorough" {
		budget = 40 * time.Minute
	}
	if b := os.Getenv("VERIF_BUDGET_S"); b != "" {
		if n, err := strconv.Atoi(b); err == nil {
			budget = time.Duration(n) * time.Second
		}
	}
	c.deadline = c.start.Add(budget)
	current = c
	f, err := os.Open(filepath.Join(Root, "KNOWN_FINDINGS.jsonl"))
	if err == nil {
		sc := bufio.NewScanner(f)
		sc.Buffer(make([]byte, 1<<20), 1<<20)
		for sc.Scan() {
			line := strings.TrimSpace(sc.Text())
			if line == "" || strings.HasPrefix(line, "#") {
				continue
			}
			var e knownEntry
			if err := json.Unmarshal([]byte(line), &e); err != nil {
				fmt.Fprintf(os.Stderr, "KNOWN_FINDINGS.jsonl: bad line: %v\n", err)
				os.Exit(2)
			}
			if e.Property == id && e.Status == "open" {
				c.known = append(c.known, e)
			}
		}
		f.Close()
	}
	return c
}

// Thorough reports whether the thorough tier is running.
func (c *Check) Thorough() bool { return c.Tier == "thorough" }

// Deadline is the internal deadline; exceeding it ends the run with exhaustive:false, exit 0.
func (c *Check) Deadline() time.Time { return c.deadline }

// Expired reports whether the internal deadline has passed; it records the cap.
func (c *Check) Expired(what string) bool {
	if time.Now().After(c.deadline) {
		c.Cap("internal deadline reached during " + what)
		return true
	}
	return false
}

// Cap records that a cap was hit: the run is not exhaustive.
func (c *Check) Cap(what string) {
	c.mu.Lock()
	defer c.mu.Unlock()
	c.Exhaustive = false
	for _, x := range c.caps {
		if x == what {
			return
		}
	}
	c.caps = append(c.caps, what)
}

// Sample keeps a few actual cases for the evidence file.
func (c *Check) Sample(s interface{}) {
	c.mu.Lock()
	defer c.mu.Unlock()
	if len(c.samples) < 12 {
		c.samples = append(c.samples, s)
	}
}

// Add increments an integer coverage counter.
func (c *Check) Add(key string, n int64) {
	c.mu.Lock()
	defer c.mu.Unlock()
	v, _ := c.Cov[key].(int64)
	c.Cov[key] = v + n
}

// Set stores a coverage value.
func (c *Check) Set(key string, v interface{}) {
	c.mu.Lock()
	defer c.mu.Unlock()
	c.Cov[key] = v
}

// Get reads an integer coverage counter.
func (c *Check) Get(key string) int64 {
	c.mu.Lock()
	defer c.mu.Unlock()
	v, _ := c.Cov[key].(int64)
	return v
}

func keyString(keys map[string]string) string {
	var ks []string
	for k, v := range keys {
		ks = append(ks, k+"="+v)
	}
	sort.Strings(ks)
	return strings.Join(ks, " ")
}

func matches(e knownEntry, keys map[string]string) bool {
	if len(e.Match) == 0 {
		return false
	}
	for k, v := range e.Match {
		got, ok := keys[k]
		if !ok {
			return false
		}
		if strings.HasSuffix(v, "*") {
			if !strings.HasPrefix(got, strings.TrimSuffix(v, "*")) {
				return false
			}
		} else if got != v {
			return false
		}
	}
	return true
}

// Violation reports one property failure. keys classify it (entry point, failing function, kind,
// input class — never line numbers); a failure whose keys match an open entry of
// KNOWN_FINDINGS.jsonl is reported as KNOWN-FINDING and does not affect the exit status. replay is
// written to replays/<id>-<hash>.json for unknown violations. It returns true if the violation is new.
func (c *Check) Violation(keys map[string]string, what string, replay interface{}) bool {
	c.mu.Lock()
	defer c.mu.Unlock()
	ks := keyString(keys)
	if c.seen[ks] {
		return false
	}
	c.seen[ks] = true
	for i, e := range c.known {
		if matches(e, keys) {
			c.nKnown++
			if !c.knownHit[i] {
				c.knownHit[i] = true
				fmt.Printf("KNOWN-FINDING: property=%s %s\n", c.ID, e.What)
			}
			return false
		}
	}
	c.nViol++
	sum := sha1.Sum([]byte(ks))
	path := filepath.Join(Root, "replays", fmt.Sprintf("%s-%x.json", c.ID, sum[:6]))
	_ = os.MkdirAll(filepath.Dir(path), 0o755)
	b, _ := json.MarshalIndent(map[string]interface{}{"property": c.ID, "keys": keys, "what": what, "replay": replay}, "", " ")
	_ = os.WriteFile(path, b, 0o644)
	if c.nViol <= 40 {
		fmt.Printf("VIOLATION property=%s replay=%s\n   keys: %s\n   %s\n", c.ID, path, ks, firstLines(what, 6))
	}
	return true
}

func firstLines(s string, n int) string {
	l := strings.Split(s, "\n")
	if len(l) > n {
		l = l[:n]
	}
	for i := range l {
		if len(l[i]) > 400 {
			l[i] = l[i][:400] + "…"
		}
	}
	return strings.Join(l, "\n   ")
}

// Violations returns the number of unknown violations so far.
func (c *Check) Violations() int {
	c.mu.Lock()
	defer c.mu.Unlock()
	return c.nViol
}

// Broken aborts the run: the machinery itself failed (never a VIOLATION line).
func (c *Check) Broken(format string, a ...interface{}) {
	fmt.Fprintf(os.Stderr, "CHECK-BROKEN property=%s: %s\n", c.ID, fmt.Sprintf(format, a...))
	os.Exit(2)
}

// Finish writes the evidence file and exits with 0 (held) or 1 (violations).
func (c *Check) Finish() {
	c.mu.Lock()
	cov := c.Cov
	if len(c.samples) > 0 {
		cov["samples"] = c.samples
	}
	cov["exhaustive"] = c.Exhaustive
	if len(c.caps) > 0 {
		cov["caps_hit"] = c.caps
	}
	cov["known_findings_matched"] = c.nKnown
	ev := map[string]interface{}{
		"property_id": c.ID,
		"tier":        c.Tier,
		"seed":        c.Seed,
		"level":       c.Level,
		"coverage":    cov,
		"assumptions": c.Assumptions,
		"wall_s":      time.Since(c.start).Seconds(),
		"violations":  c.nViol,
	}
	if c.Assumptions == nil {
		ev["assumptions"] = []string{}
	}
	n := c.nViol
	c.mu.Unlock()
	b, err := json.MarshalIndent(ev, "", " ")
	if err != nil {
		c.Broken("evidence: %v", err)
	}
	dir := filepath.Join(Root, "evidence")
	if d := os.Getenv("VERIF_EVIDENCE_DIR"); d != "" {
		dir = d // runs against deliberately broken trees (tools/trymutant.sh) must not overwrite the evidence
	}
	_ = os.MkdirAll(dir, 0o755)
	if err := os.WriteFile(filepath.Join(dir, c.ID+".json"), append(b, '\n'), 0o644); err != nil {
		c.Broken("evidence: %v", err)
	}
	fmt.Printf("%s %s: violations=%d known=%d exhaustive=%v wall=%.1fs\n", c.ID, c.Tier, n, c.nKnown, c.Exhaustive, time.Since(c.start).Seconds())
	if n > 0 {
		os.Exit(1)
	}
	os.Exit(0)
}

// current is the check of this process (set by New): ParFor consults its deadline.
var current *Check

// ParFor runs f(0..n-1) on all cores. Items are taken in order (callers order them simplest
// first); once the internal deadline of the check has passed the remaining items are skipped and
// the cap is recorded (exhaustive:false).
func ParFor(n int, f func(i int)) {
	p := runtime.NumCPU()
	if p > n {
		p = n
	}
	if p < 1 {
		p = 1
	}
	var wg sync.WaitGroup
	var mu sync.Mutex
	next := 0
	for w := 0; w < p; w++ {
		wg.Add(1)
		go func() {
			defer wg.Done()
			for {
				mu.Lock()
				i := next
				next++
				mu.Unlock()
				if i >= n {
					return
				}
				if current != nil && (n < 4096 || i%64 == 0) && time.Now().After(current.deadline) {
					current.Cap(fmt.Sprintf("internal deadline reached in a parallel loop at item %d of %d", i, n))
					mu.Lock()
					next = n
					mu.Unlock()
					return
				}
				f(i)
			}
		}()
	}
	wg.Wait()
}

// Catch runs f and returns the recovered panic value (nil if none) with the name of the
// innermost function of the module under test on the stack.
func Catch(f func()) (val interface{}, site string) {
	defer func() {
		if r := recover(); r != nil {
			val = r
			site = PanicSite()
		}
	}()
	f()
	return nil, ""
}

// PanicSite must be called from a deferred function during a panic: it returns the innermost
// stack frame that is not in the Go runtime (function name, no line number).
func PanicSite() string {
	pcs := make([]uintptr, 64)
	n := runtime.Callers(2, pcs)
	frames := runtime.CallersFrames(pcs[:n])
	seenPanic := false
	first := ""
	for {
		fr, more := frames.Next()
		fn := fr.Function
		if fn == "runtime.gopanic" || strings.HasPrefix(fn, "runtime.panic") || fn == "runtime.goPanicIndex" || fn == "runtime.sigpanic" {
			seenPanic = true
		} else if seenPanic && !strings.HasPrefix(fn, "runtime.") && !strings.HasPrefix(fn, "reflect.") && fn != "" {
			if first == "" {
				first = fn
			}
			if strings.Contains(fn, "go-cassandra-native-protocol") {
				return short(fn)
			}
		}
		if !more {
			break
		}
	}
	if first != "" {
		return short(first)
	}
	return "?"
}

func short(fn string) string {
	if i := strings.LastIndex(fn, "/"); i >= 0 {
		fn = fn[i+1:]
	}
	return fn
}
