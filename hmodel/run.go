package hmodel

import (
	"github.com/datastax/go-cassandra-native-protocol/primitive"

	"encoding/json"
	"fmt"
	"os"
	"strings"

	"verif/engine/bfs"
	"verif/engine/explore"
	"verif/vlib"
)

// Config of one BFS model.
type BfsCfg struct {
	N, MP    int
	Consume  bool
	MaxDepth int
	Dse1     bool
}

func (c BfsCfg) Name() string {
	v := "dse2"
	if c.Dse1 {
		v = "dse1"
	}
	return fmt.Sprintf("handler-N%d-mp%d-consume%v-%s", c.N, c.MP, c.Consume, v)
}

func (c BfsCfg) ver() primitive.ProtocolVersion {
	if c.Dse1 {
		return primitive.ProtocolVersionDse1
	}
	return primitive.ProtocolVersionDse2
}

// RegisterBfs registers the BFS model for cfg and returns it.
func RegisterBfs(c BfsCfg) *bfs.Model {
	ops := Alphabet(c.N, c.Consume)
	m := &bfs.Model{
		Name:     c.Name(),
		NumOps:   len(ops),
		OpName:   func(i int) string { return ops[i].String() },
		MaxDepth: c.MaxDepth,
		Run: func(path []int) (string, bool, []bfs.Viol) {
			return Run(c.N, c.MP, c.ver(), ops, path)
		},
	}
	bfs.Register(m)
	return m
}

// Wanted decides which violation kinds a property's check reports: its own tagged kinds plus
// the generic ones listed.
func Wanted(kind string, prop string, generic ...string) bool {
	if strings.HasPrefix(kind, prop+":") {
		return true
	}
	for _, g := range generic {
		if kind == g {
			return true
		}
	}
	return false
}

// ReportBfs turns BFS violations into check violations.
func ReportBfs(c *vlib.Check, r *bfs.Result, prop string, generic ...string) {
	for _, v := range r.Viols {
		if !Wanted(v.Kind, prop, generic...) {
			continue
		}
		c.Violation(map[string]string{"engine": "bfs", "kind": v.Kind, "site": v.Site}, fmt.Sprintf("model %s, history %v: %s", r.Model, v.Ops, v.Msg),
			map[string]interface{}{"engine": "bfs", "model": r.Model, "path": v.Path, "ops": v.Ops})
	}
}

// ReportExplore turns explorer violations into check violations.
func ReportExplore(c *vlib.Check, r *explore.Result, prop string, generic ...string) {
	for _, v := range r.Stats.Viols {
		if !Wanted(v.Kind, prop, generic...) {
			continue
		}
		keys := map[string]string{"engine": "explore", "kind": v.Kind, "site": v.Site, "harness": HarnessFamily(v.Harness)}
		if v.Kind == "panic" {
			keys["panic"] = strings.SplitN(v.Msg, "\n", 2)[0]
		}
		c.Violation(keys, fmt.Sprintf("harness %s (%s) arg %d, %s bound %d, schedule %v: %s", v.Harness, v.Param, r.Arg, r.Cost, r.Bound, v.Choices, v.Msg),
			map[string]interface{}{"engine": "explore", "harness": v.Harness, "choices": v.Choices, "trace": v.Trace, "bound": r.Bound, "arg": r.Arg})
	}
}

// ReplayMain re-runs one recorded violation: argv = replay <file>.
func ReplayMain(file string) {
	b, err := os.ReadFile(file)
	if err != nil {
		fmt.Fprintln(os.Stderr, err)
		os.Exit(2)
	}
	var rec struct {
		Property string                 `json:"property"`
		Keys     map[string]string      `json:"keys"`
		Replay   map[string]interface{} `json:"replay"`
	}
	if err := json.Unmarshal(b, &rec); err != nil {
		fmt.Fprintln(os.Stderr, err)
		os.Exit(2)
	}
	ints := func(x interface{}) []int {
		var out []int
		if l, ok := x.([]interface{}); ok {
			for _, e := range l {
				out = append(out, int(e.(float64)))
			}
		}
		return out
	}
	switch rec.Replay["engine"] {
	case "explore":
		h := explore.Lookup(rec.Replay["harness"].(string))
		if h == nil {
			fmt.Fprintln(os.Stderr, "unknown harness")
			os.Exit(2)
		}
		if b, ok := rec.Replay["bound"].(float64); ok {
			h.Bound = int(b)
		}
		if a, ok := rec.Replay["arg"].(float64); ok {
			h.Arg = int(a)
		}
		x, viols, log := explore.Replay(h, ints(rec.Replay["choices"]))
		fmt.Println(x.Describe())
		for _, l := range x.Trace {
			fmt.Println("  ", l)
		}
		for _, l := range log {
			fmt.Println("obs:", l)
		}
		for _, v := range viols {
			fmt.Printf("VERDICT: %s@%s: %s\n", v.Kind, v.Site, v.Msg)
		}
		if len(viols) > 0 {
			os.Exit(1)
		}
	case "bfs":
		name := rec.Replay["model"].(string)
		m := bfs.Lookup(name)
		if m == nil {
			fmt.Fprintln(os.Stderr, "unknown model", name)
			os.Exit(2)
		}
		path := ints(rec.Replay["path"])
		canon, dead, viols := m.Run(path)
		for _, o := range path {
			fmt.Println("  op:", m.OpName(o))
		}
		fmt.Println("state:", canon, "dead:", dead)
		for _, v := range viols {
			fmt.Printf("VERDICT: %s@%s: %s\n", v.Kind, v.Site, v.Msg)
		}
		if len(viols) > 0 {
			os.Exit(1)
		}
	default:
		fmt.Fprintln(os.Stderr, "unknown replay engine")
		os.Exit(2)
	}
	fmt.Println("VERDICT: no violation on replay")
}

// TraceMain prints the default schedule of a harness with its decision points (debug aid).
func TraceMain(name string) {
	h := explore.Lookup(name)
	if h == nil {
		fmt.Fprintln(os.Stderr, "unknown harness")
		os.Exit(2)
	}
	x, viols, log := explore.Replay(h, nil)
	fmt.Println(x.Describe())
	for _, l := range x.Trace {
		fmt.Println("  ", l)
	}
	for i, d := range x.Decisions {
		fmt.Printf("decision %d: kind=%c n=%d curEnabled=%v\n", i, d.Kind, d.N, d.CurEnabled)
	}
	fmt.Println(log, viols)
}

// HarnessFamily is the harness name up to its first '/' (violations are classified per family).
func HarnessFamily(name string) string {
	if i := strings.Index(name, "/"); i >= 0 {
		return name[:i]
	}
	return name
}
