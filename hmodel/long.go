package hmodel

import (
	"fmt"
	"time"

	"github.com/datastax/go-cassandra-native-protocol/client"
	"github.com/datastax/go-cassandra-native-protocol/frame"
	"github.com/datastax/go-cassandra-native-protocol/message"
	"github.com/datastax/go-cassandra-native-protocol/primitive"
	"github.com/datastax/go-cassandra-native-protocol/verifrt/vctx"

	"verif/engine/explore"
)

// Long deterministic histories on the real handler for limits the small-N search cannot reach
// (the id is one byte wide in protocol v2: 127/128 and 255/256 are its boundaries):
//   - fill:  N in {127, 128, 255, 256, 300}: N sends accepted with distinct ids in 1..N, the
//     next one refused, every request answered in reverse order and delivered to its own
//     channel, then N sends accepted again.
func longQuery(tag string) *frame.Frame {
	return frame.NewFrame(primitive.ProtocolVersion4, 0, &message.Query{Query: tag, Options: &message.QueryOptions{Consistency: primitive.ConsistencyLevelOne}})
}

func longAnswer(id int16, tag string) *frame.Frame {
	return frame.NewFrame(primitive.ProtocolVersion4, id, &message.RowsResult{Metadata: &message.RowsMetadata{ColumnCount: 1, PagingState: []byte(tag)}, Data: message.RowSet{}})
}

func fillHarness(n int) *explore.Harness {
	return &explore.Harness{Name: fmt.Sprintf("h-long-fill-N%d", n), Cost: "delay", Bound: 0, MaxSteps: 5000000, Param: fmt.Sprintf("N=%d: fill, one more, answer in reverse, fill again", n), Body: func(o *explore.Obs) {
		ctx, cancel := vctx.WithCancel(vctx.Background())
		defer cancel()
		h := client.VNewHandler(ctx, n, 1, time.Hour)
		for round := 0; round < 2; round++ {
			var reqs []client.InFlightRequest
			ids := map[int16]int{}
			for i := 0; i < n; i++ {
				r, err := h.Out(longQuery(fmt.Sprintf("r%d-%d", round, i)))
				if err != nil {
					o.Fail("C09:refused-below-limit", "inFlightRequestsHandler.onOutgoingFrameEnqueued", "round %d: send %d of N=%d refused: %v", round, i, n, err)
					return
				}
				id := r.StreamId()
				if id < 1 || int(id) > n {
					o.Fail("C09:id-out-of-range", "inFlightRequestsHandler.borrowStreamId", "round %d: send %d got id %d (N=%d)", round, i, id, n)
				}
				if j, dup := ids[id]; dup {
					o.Fail("C09:duplicate-id", "inFlightRequestsHandler.borrowStreamId", "round %d: sends %d and %d both got id %d", round, j, i, id)
				}
				ids[id] = i
				reqs = append(reqs, r)
			}
			if r, err := h.Out(longQuery("one-too-many")); err == nil {
				o.Fail("C09:accepted-beyond-limit", "inFlightRequestsHandler.onOutgoingFrameEnqueued", "round %d: send N+1 accepted with id %d while N=%d requests are unanswered", round, r.StreamId(), n)
			}
			for i := n - 1; i >= 0; i-- {
				tag := fmt.Sprintf("a%d-%d", round, i)
				if err := h.In(longAnswer(reqs[i].StreamId(), tag)); err != nil {
					o.Fail("C10:deliver-error", "inFlightRequestsHandler.onIncomingFrameReceived", "round %d: answer for request %d: %v", round, i, err)
					return
				}
			}
			for i, r := range reqs {
				select {
				case f, ok := <-r.Incoming():
					if !ok || f == nil {
						o.Fail("C10:misdelivery", "inFlightRequest.onFrameReceived", "round %d: request %d completed without a response", round, i)
					} else if got := string(f.Body.Message.(*message.RowsResult).Metadata.PagingState); got != fmt.Sprintf("a%d-%d", round, i) {
						o.Fail("C10:misdelivery", "inFlightRequestsHandler.onIncomingFrameReceived", "round %d: request %d received the response %s", round, i, got)
					}
				default:
					o.Fail("C10:misdelivery", "inFlightRequest.onFrameReceived", "round %d: request %d got nothing", round, i)
				}
			}
		}
		o.Logf("filled twice, N=%d", n)
		h.Close()
	}}
}

// LongHarnesses registers and names the long deterministic histories.
func LongHarnesses() []string {
	hs := []*explore.Harness{}
	for _, n := range []int{127, 128, 255, 256, 300} {
		hs = append(hs, fillHarness(n))
	}
	var names []string
	for _, h := range hs {
		explore.Register(h)
		names = append(names, h.Name)
	}
	return names
}
