package hmodel

import "github.com/rs/zerolog"

func init() { zerolog.SetGlobalLevel(zerolog.Disabled) }
