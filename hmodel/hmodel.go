// Package hmodel drives the real in-flight request handler (client/inflight.go, through the seams
// of export/client_export.go) with operation histories and compares every step with a boring
// reference model of the statements of C09 (stream ids) and C10 (delivery). It is used by the BFS
// engine; each oracle failure is tagged with the property it belongs to.
package hmodel

import (
	"fmt"
	"sort"
	"strings"
	"time"

	"github.com/datastax/go-cassandra-native-protocol/client"
	"github.com/datastax/go-cassandra-native-protocol/frame"
	"github.com/datastax/go-cassandra-native-protocol/message"
	"github.com/datastax/go-cassandra-native-protocol/primitive"
	"github.com/datastax/go-cassandra-native-protocol/verifrt/sched"
	"github.com/datastax/go-cassandra-native-protocol/verifrt/vctx"

	"verif/engine/bfs"
)

// Op is one operation of the alphabet.
type Op struct {
	Kind string // sendM, sendX, final, page, consume, close
	K    int16
}

func (o Op) String() string {
	switch o.Kind {
	case "sendM", "close":
		return o.Kind
	}
	return fmt.Sprintf("%s(%d)", o.Kind, o.K)
}

// Alphabet builds the operation list for a handler with limit n.
func Alphabet(n int, withConsume bool) []Op {
	ops := []Op{{"sendM", 0}}
	xs := []int16{1, int16(n), int16(n + 1), -1}
	seen := map[int16]bool{}
	for _, k := range xs {
		if !seen[k] {
			seen[k] = true
			ops = append(ops, Op{"sendX", k})
		}
	}
	var ks []int16
	for k := 1; k <= n+1; k++ {
		ks = append(ks, int16(k))
	}
	ks = append(ks, 7, -1)
	for _, k := range ks {
		ops = append(ops, Op{"final", k})
	}
	for _, k := range ks {
		ops = append(ops, Op{"page", k})
	}
	if withConsume {
		for _, k := range ks {
			ops = append(ops, Op{"consume", k})
		}
	}
	ops = append(ops, Op{"close", 0})
	return ops
}

// Tag names a response frame: (serial of the request it answers, page number).
// Ver is the protocol version of the frames used by the current run (continuous paging exists in DSE v1 and v2).
var Ver = primitive.ProtocolVersionDse2

func respFrame(id int16, final bool, serial, page int) *frame.Frame {
	tag := fmt.Sprintf("s%d.p%d", serial, page)
	if final && page == 1 {
		return frame.NewFrame(Ver, id, &message.SetKeyspaceResult{Keyspace: tag})
	}
	// The tag travels in the only cell of the page. Whether a page is the last one is said by
	// LastContinuousPage alone: odd pages carry no paging state, even pages carry one, final or not
	// (a server is free to send either; seeded change C10a-r6 took "no paging state" for "last page").
	md := &message.RowsMetadata{ColumnCount: 1, ContinuousPageNumber: int32(page), LastContinuousPage: final}
	if page%2 == 0 {
		md.PagingState = []byte("ps-" + tag)
	}
	return frame.NewFrame(Ver, id, &message.RowsResult{Metadata: md, Data: message.RowSet{{[]byte(tag)}}})
}

func tagOf(f *frame.Frame) string {
	switch m := f.Body.Message.(type) {
	case *message.SetKeyspaceResult:
		return m.Keyspace
	case *message.RowsResult:
		if len(m.Data) == 1 && len(m.Data[0]) == 1 {
			return string(m.Data[0][0])
		}
	}
	return "?"
}

type rreq struct {
	serial  int
	managed bool
	queue   []string // tags delivered and not yet consumed
	done    bool     // request completed (channel closed)
	failed  bool     // completed with an error
	pages   int      // pages delivered so far
	h       client.InFlightRequest
}

// Run executes the history path over a fresh handler (limit n, maxPending mp) and checks every
// step. It returns the canonical state of the implementation.
func Run(n, mp int, ver primitive.ProtocolVersion, ops []Op, path []int) (canon string, dead bool, viols []bfs.Viol) {
	Ver = ver
	fail := func(prop, kind, site, format string, a ...interface{}) {
		viols = append(viols, bfs.Viol{Kind: prop + ":" + kind, Site: site, Msg: fmt.Sprintf(format, a...), Path: append([]int{}, path...)})
	}
	x := sched.Run(nil, false, func() {
		sched.Atomic(func() {
			ctx, cancel := vctx.WithCancel(vctx.Background())
			defer cancel()
			h := client.VNewHandler(ctx, n, mp, time.Hour)
			inflight := map[int16]*rreq{}
			shadow := map[int16]*rreq{} // earlier requests whose id was handed out again while the peer still answers them
			closed := false
			everExplicit := false
			serial := 0
			compare := func(step string) {
				var want []int16
				for k := range inflight {
					want = append(want, k)
				}
				sort.Slice(want, func(i, j int) bool { return want[i] < want[j] })
				got := h.InFlightIds()
				if fmt.Sprint(got) != fmt.Sprint(want) {
					fail("C09", "inflight-set", "inFlightRequestsHandler", "after %s: unanswered ids are %v, handler tracks %v", step, want, got)
				}
				for _, k := range want {
					m := inflight[k]
					// observed through the request's own public handle, not through the handler's map
					if q := len(m.h.Incoming()); q != len(m.queue) {
						fail("C10", "queue-length", "inFlightRequest.onFrameReceived", "after %s: request %d has %d undelivered frames, expected %d", step, k, q, len(m.queue))
					}
					if d := m.h.IsDone(); d != m.done {
						fail("C10", "done-flag", "inFlightRequest.close", "after %s: request %d done=%v, expected %v", step, k, d, m.done)
					}
				}
			}
			for stepNo, oi := range path {
				op := ops[oi]
				step := fmt.Sprintf("step %d %s", stepNo, op)
				switch op.Kind {
				case "sendM", "sendX":
					id := op.K
					f := frame.NewFrame(primitive.ProtocolVersionDse2, id, &message.Options{})
					req, err := h.Out(f)
					full := len(inflight) >= n
					if op.Kind == "sendX" {
						everExplicit = true
					}
					if err == nil {
						serial++
						got := req.StreamId()
						if closed {
							fail("C09", "accepted-after-close", "onOutgoingFrameEnqueued", "%s accepted on a closed handler", step)
						}
						if full {
							fail("C09", "accepted-when-full", "onOutgoingFrameEnqueued", "%s accepted with id %d although %d requests are unanswered (limit %d)", step, got, len(inflight), n)
						}
						if old, dup := inflight[got]; dup {
							fail("C09", "duplicate-id", "onOutgoingFrameEnqueued", "%s accepted with id %d which an unanswered request carries", step, got)
							// the peer is still answering the earlier request: its remaining pages carry this id but are not
							// meant for the new one
							shadow[got] = old
						}
						if op.Kind == "sendM" && (got < 1 || int(got) > n) {
							fail("C09", "id-out-of-range", "borrowStreamId", "%s: managed id %d outside 1..%d", step, got, n)
						}
						if op.Kind == "sendX" && got != id {
							fail("C09", "explicit-id-changed", "onOutgoingFrameEnqueued", "%s: explicit id %d became %d", step, id, got)
						}
						if f.Header.StreamId != got {
							fail("C09", "frame-id-mismatch", "onOutgoingFrameEnqueued", "%s: frame carries id %d, request reports %d", step, f.Header.StreamId, got)
						}
						inflight[got] = &rreq{serial: serial, managed: op.Kind == "sendM", h: req}
					} else {
						if !closed && !full && !everExplicit {
							fail("C09", "refused-below-limit", "onOutgoingFrameEnqueued", "%s refused (%v) with only %d of %d requests unanswered", step, err, len(inflight), n)
						}
					}
				case "final", "page":
					if sh := shadow[op.K]; sh != nil && !closed {
						// a late page of the EARLIER request with this id (only reachable after a duplicate id was handed
						// out): it must not reach the request that now carries the id - the queues checked by compare stay put
						_ = h.In(respFrame(op.K, op.Kind == "final", sh.serial, sh.pages+1))
						sh.pages++
						if op.Kind == "final" {
							delete(shadow, op.K)
						}
						break
					}
					m := inflight[op.K]
					ser, pg := 0, 1
					if m != nil {
						ser, pg = m.serial, m.pages+1
					}
					f := respFrame(op.K, op.Kind == "final", ser, pg)
					err := h.In(f)
					if closed {
						break
					}
					if m == nil {
						if err == nil {
							fail("C10", "unknown-id-accepted", "onIncomingFrameReceived", "%s: response for an id nobody waits for was accepted", step)
						}
						break
					}
					m.pages++
					if !m.done {
						if len(m.queue) < mp {
							m.queue = append(m.queue, tagOf(f))
							if err != nil {
								fail("C10", "delivery-refused", "inFlightRequest.onFrameReceived", "%s: delivery failed: %v", step, err)
							}
							if op.Kind == "final" {
								m.done = true
							}
						} else {
							// more than maxPending undelivered pages: this request fails, nobody else
							m.done, m.failed = true, true
							if err == nil {
								fail("C10", "overflow-accepted", "inFlightRequest.onFrameReceived", "%s: frame accepted beyond maxPending=%d", step, mp)
							}
						}
					}
					if op.Kind == "final" {
						checkDrained(m, fail, step)
						delete(inflight, op.K)
					}
				case "consume":
					m := inflight[op.K]
					if m == nil || len(m.queue) == 0 {
						dead = true
						return
					}
					ch := m.h.Incoming()
					if len(ch) == 0 {
						fail("C10", "lost-frame", "inFlightRequest.onFrameReceived", "%s: request %d should have %d frames queued, channel is empty", step, op.K, len(m.queue))
						dead = true
						return
					}
					fr := <-ch
					if got := tagOf(fr); got != m.queue[0] {
						fail("C10", "wrong-frame", "inFlightRequest.onFrameReceived", "%s: request %d received %s, expected %s", step, op.K, got, m.queue[0])
					}
					m.queue = m.queue[1:]
				case "close":
					h.Close()
					closed = true
					for k, m := range inflight {
						m.done = true
						if m.h.Err() == nil {
							fail("C16", "closed-without-error", "inFlightRequest.close", "%s: unanswered request %d has no error after close", step, k)
						}
						delete(inflight, k)
					}
				}
				if !closed {
					compare(step)
				}
			}
			// canonical state of the implementation
			var b strings.Builder
			fmt.Fprintf(&b, "closed=%v free=%v reqs=", h.IsClosedFlag(), h.FreeIds())
			for _, r := range h.Requests() {
				fmt.Fprintf(&b, "[%d m=%v q=%d d=%v]", r.Id, r.Managed, r.Queued, r.Done)
			}
			// a state in which the reference model no longer agrees with the implementation about who is unanswered
			// must not be merged with the ordinary state that looks the same from the implementation's side: its
			// futures differ (late pages of a request the implementation has already forgotten)
			if !closed {
				var mk []string
				for k, m := range inflight {
					mk = append(mk, fmt.Sprintf("%d:%v", k, m.done))
				}
				for k := range shadow {
					mk = append(mk, fmt.Sprintf("s%d", k))
				}
				sort.Strings(mk)
				if fmt.Sprint(len(inflight)) != fmt.Sprint(len(h.InFlightIds())) || len(shadow) > 0 {
					fmt.Fprintf(&b, " MODEL-DIVERGED%v", mk)
				}
			}
			canon = b.String()
			// differential conservation check from this state: answer everything, then n managed sends
			if !closed {
				ids := h.InFlightIds()
				for _, k := range ids {
					_ = h.In(respFrame(k, true, 0, 1))
				}
				if left := h.InFlightIds(); len(left) != 0 {
					fail("C09", "not-recycled", "onIncomingFrameReceived", "after answering every request, ids %v are still tracked as unanswered", left)
				}
				got := map[int16]bool{}
				for i := 0; i < n; i++ {
					req, err := h.Out(frame.NewFrame(primitive.ProtocolVersionDse2, 0, &message.Options{}))
					if err != nil {
						fail("C09", "ids-lost", "borrowStreamId/releaseStreamId", "after all requests were answered only %d of %d new managed sends succeed: %v", i, n, err)
						break
					}
					if got[req.StreamId()] || req.StreamId() < 1 || int(req.StreamId()) > n {
						fail("C09", "duplicate-id", "borrowStreamId", "after all requests were answered, send %d got id %d (already handed out or out of range)", i, req.StreamId())
					}
					got[req.StreamId()] = true
				}
				if _, err := h.Out(frame.NewFrame(primitive.ProtocolVersionDse2, 0, &message.Options{})); err == nil {
					fail("C09", "accepted-when-full", "onOutgoingFrameEnqueued", "send %d accepted although %d requests are unanswered", n+1, n)
				}
			}
			h.Close()
		})
	})
	if x.PanicVal != "" {
		viols = append(viols, bfs.Viol{Kind: "panic", Site: x.PanicFn, Msg: x.Panic, Path: append([]int{}, path...)})
	}
	if x.Deadlock {
		viols = append(viols, bfs.Viol{Kind: "deadlock", Site: "handler", Msg: strings.Join(x.Blocked, "; "), Path: append([]int{}, path...)})
	}
	if x.Leaked > 0 && x.PanicVal == "" {
		viols = append(viols, bfs.Viol{Kind: "C16:leak", Site: "handler", Msg: strings.Join(x.Blocked, "; "), Path: append([]int{}, path...)})
	}
	return
}

// checkDrained verifies, when a request completes, that its channel holds exactly the expected
// frames in order and is closed after them.
func checkDrained(m *rreq, fail func(prop, kind, site, format string, a ...interface{}), step string) {
	ch := m.h.Incoming()
	var got []string
	closedCh := false
	for {
		if len(ch) == 0 {
			// a closed channel of length 0 yields immediately; an open one would block
			if !m.h.IsDone() {
				break
			}
			_, ok := <-ch
			if !ok {
				closedCh = true
			}
			break
		}
		fr := <-ch
		got = append(got, tagOf(fr))
	}
	if strings.Join(got, ",") != strings.Join(m.queue, ",") {
		fail("C10", "wrong-delivery", "inFlightRequest.onFrameReceived", "%s: request with serial %d received %v, expected %v", step, m.serial, got, m.queue)
	}
	if !closedCh {
		fail("C10", "not-completed", "inFlightRequest.close", "%s: request with serial %d not completed after its last frame", step, m.serial)
	}
	if !m.failed && m.h.Err() != nil {
		fail("C10", "spurious-error", "inFlightRequest.close", "%s: request with serial %d completed with error %v", step, m.serial, m.h.Err())
	}
	if m.failed && m.h.Err() == nil {
		fail("C10", "missing-error", "inFlightRequest.close", "%s: request with serial %d overflowed but reports no error", step, m.serial)
	}
	m.queue = nil
}
