package hmodel

import "github.com/datastax/go-cassandra-native-protocol/verifrt/vchan"

func vchanIsClosed(ch interface{}) bool { return vchan.IsClosed(ch) }
