package hmodel

import (
	"fmt"
	"os"

	"verif/engine/bfs"
	"verif/engine/explore"
	"verif/vlib"
)

// Totals accumulates coverage over the engines used by one check.
type Totals struct {
	States, Trans, Execs, Steps int64
	LastMaxSteps                int64
	Outcomes                    int
	Bfs, Explore                []map[string]interface{}
	quietAgg                    map[string]map[string]interface{}
}

var cfgsQuick = []BfsCfg{{N: 1, MP: 1}, {N: 2, MP: 1}, {N: 2, MP: 2, Consume: true, Dse1: true}}
var cfgsThorough = []BfsCfg{{N: 3, MP: 1}, {N: 3, MP: 2, Consume: true}, {N: 2, MP: 2, Consume: true}}

var models []*bfs.Model

// RegisterHandlerLevel registers the BFS models and handler-level harnesses (call before the
// worker dispatch).
func RegisterHandlerLevel() {
	for _, c := range append(append([]BfsCfg{}, cfgsQuick...), cfgsThorough...) {
		models = append(models, RegisterBfs(c))
	}
	for _, s := range append(Scripts(), CloseScripts()...) {
		explore.Register(s.Harness("preempt", s.QB))
	}
}

// Dispatch handles the worker / replay / trace sub-commands; it returns false if the process
// should go on as the check itself.
func Dispatch() bool {
	if explore.IsWorker() {
		explore.WorkerMain()
		return true
	}
	if bfs.IsWorker() {
		bfs.WorkerMain()
		return true
	}
	if len(os.Args) > 2 && os.Args[1] == "replay" {
		ReplayMain(os.Args[2])
		return true
	}
	if len(os.Args) > 4 && os.Args[1] == "confirm" {
		explore.ConfirmMain(os.Args[2:])
		return true
	}
	if len(os.Args) > 2 && os.Args[1] == "trace" {
		TraceMain(os.Args[2])
		return true
	}
	return false
}

// RunHandlerLevel runs the BFS models and the handler-level harnesses for property prop.
func RunHandlerLevel(c *vlib.Check, prop string, t *Totals, generic ...string) {
	nm := len(cfgsQuick)
	if c.Thorough() {
		nm = len(models)
	}
	for _, m := range models[:nm] {
		r, err := bfs.Search(m, 0, c.Deadline(), 0)
		if err != nil {
			c.Broken("bfs %s: %v", m.Name, err)
		}
		if !r.Fixpoint {
			c.Cap(fmt.Sprintf("bfs %s stopped at depth %d before the fixpoint", m.Name, r.Depth))
		}
		t.States += int64(r.States)
		t.Trans += int64(r.Transitions)
		t.Bfs = append(t.Bfs, map[string]interface{}{"model": m.Name, "alphabet": m.NumOps, "states": r.States, "transitions": r.Transitions, "depth": r.Depth, "fixpoint": r.Fixpoint, "states_per_depth": r.PerDepth, "violating_transitions": r.ViolCount, "wall_s": r.WallS})
		for i, s := range r.Samples {
			if i < 2 {
				c.Sample(map[string]interface{}{"bfs_history": s})
			}
		}
		ReportBfs(c, r, prop, generic...)
		fmt.Printf("bfs %-40s states=%d transitions=%d depth=%d fixpoint=%v viol=%d %.1fs\n", m.Name, r.States, r.Transitions, r.Depth, r.Fixpoint, r.ViolCount, r.WallS)
	}
	for _, s := range Scripts() {
		bound := s.QB
		if c.Thorough() {
			bound = s.TB
		}
		RunHarness(c, prop, t, s.Name, bound, generic...)
	}
}

// RunHarness explores one registered harness at the given bound and reports.
func RunHarness(c *vlib.Check, prop string, t *Totals, name string, bound int, generic ...string) {
	runHarness(c, prop, t, name, bound, false, generic...)
}

// RunHarnessQuiet is RunHarness without a per-run line (used for the many fault positions).
func RunHarnessQuiet(c *vlib.Check, prop string, t *Totals, name string, bound int, generic ...string) {
	runHarness(c, prop, t, name, bound, true, generic...)
}

func runHarness(c *vlib.Check, prop string, t *Totals, name string, bound int, quiet bool, generic ...string) {
	h := explore.Lookup(name)
	h.Bound = bound
	if c.Expired("explore " + name) {
		return
	}
	r, err := explore.Explore(h, 0, c.Deadline())
	if err != nil {
		c.Broken("explore %s: %v", name, err)
	}
	if !r.Complete {
		c.Cap(fmt.Sprintf("explore %s truncated by the deadline at bound %d", name, bound))
	}
	t.Execs += r.Stats.Execs
	t.Steps += r.Stats.Steps
	t.Outcomes += len(r.Stats.Outcomes)
	t.LastMaxSteps = int64(r.Stats.MaxSteps)
	if quiet {
		qk := fmt.Sprintf("%s@%d", name, bound)
		q := t.quietAgg[qk]
		if q == nil {
			q = map[string]interface{}{"harness": name, "param": h.Param, "cost_model": r.Cost, "bound": r.Bound, "fault_positions": 0, "schedules": int64(0), "scheduling_points": int64(0), "violating_schedules": int64(0), "distinct_outcomes": 0}
			if t.quietAgg == nil {
				t.quietAgg = map[string]map[string]interface{}{}
			}
			t.quietAgg[qk] = q
			t.Explore = append(t.Explore, q)
		}
		q["fault_positions"] = q["fault_positions"].(int) + 1
		q["schedules"] = q["schedules"].(int64) + r.Stats.Execs
		q["scheduling_points"] = q["scheduling_points"].(int64) + r.Stats.Steps
		q["violating_schedules"] = q["violating_schedules"].(int64) + r.Stats.ViolCount
		q["distinct_outcomes"] = q["distinct_outcomes"].(int) + len(r.Stats.Outcomes)
		ReportExplore(c, r, prop, generic...)
		return
	}
	t.Explore = append(t.Explore, map[string]interface{}{"harness": name, "param": h.Param, "cost_model": r.Cost, "bound": r.Bound, "schedules": r.Stats.Execs, "scheduling_points": r.Stats.Steps, "max_points_per_schedule": r.Stats.MaxSteps, "threads": r.Stats.MaxThreads, "distinct_outcomes": len(r.Stats.Outcomes), "violating_schedules": r.Stats.ViolCount, "wall_s": r.WallS, "complete": r.Complete})
	for _, ch := range r.Stats.Sample {
		c.Sample(map[string]interface{}{"harness": name, "schedule_choices": ch})
		break
	}
	ReportExplore(c, r, prop, generic...)
	fmt.Printf("explore %-40s %s bound=%d schedules=%d points=%d outcomes=%d viol=%d %.1fs\n", name, r.Cost, r.Bound, r.Stats.Execs, r.Stats.Steps, len(r.Stats.Outcomes), r.Stats.ViolCount, r.WallS)
}

// Finish stores the totals in the evidence and ends the check.
func Finish(c *vlib.Check, t *Totals, rule string) {
	c.Set("states", t.States+t.Execs)
	c.Set("transitions", t.Trans+t.Steps)
	c.Set("traces_validated_against_impl", t.Trans+t.Execs)
	c.Set("bfs_states", t.States)
	c.Set("bfs_transitions", t.Trans)
	c.Set("schedules", t.Execs)
	c.Set("scheduling_points", t.Steps)
	c.Set("distinct_outcomes", t.Outcomes)
	c.Set("bfs", t.Bfs)
	c.Set("explore", t.Explore)
	c.Set("rule", rule)
	c.Assumptions = append(c.Assumptions,
		"sequentially consistent memory; scheduling points at sync / sync/atomic / channel / context / net operations only (thread start and context creation are not visible operations)",
		"sync, sync/atomic, context, time, net are replaced by the simulated runtime of /verif/rt through a build overlay generated from /repo's working tree; the rewritten client/*.go is otherwise the repository's code",
	)
	c.Finish()
}

// RunArgs explores one registered harness once per Arg in 0..args-1 (e.g. answer permutations).
func RunArgs(c *vlib.Check, prop string, t *Totals, name string, args, bound int, generic ...string) {
	h := explore.Lookup(name)
	for a := 0; a < args; a++ {
		h.Arg = a
		RunHarnessQuiet(c, prop, t, name, bound, generic...)
	}
	if q := t.quietAgg[fmt.Sprintf("%s@%d", name, bound)]; q != nil {
		fmt.Printf("explore %-40s %v bound=%d args=%d schedules=%d points=%d outcomes=%d viol=%d\n", name, q["cost_model"], bound, args, q["schedules"], q["scheduling_points"], q["distinct_outcomes"], q["violating_schedules"])
	}
}
