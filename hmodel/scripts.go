package hmodel

// Handler-level scenarios shared by C09 and C10.
func Scripts() []Script {
	sM := SOp{Kind: "sendM"}
	ans := SOp{Kind: "answer"}
	return []Script{
		{Name: "h-2senders-N2", QB: 2, TB: 3, N: 2, MP: 1, Threads: [][]SOp{{sM}, {sM}, {{Kind: "spurious", K: 9}}}},
		{Name: "h-2senders-N1-responder", QB: 2, TB: 3, N: 1, MP: 1, Threads: [][]SOp{{sM}, {sM}, {ans}}},
		{Name: "h-recycle-N1", QB: 3, TB: 4, N: 1, MP: 1, Threads: [][]SOp{{sM, sM}, {ans, ans}}},
		{Name: "h-3senders-N2-responder", QB: 1, TB: 2, N: 2, MP: 1, Threads: [][]SOp{{sM}, {sM}, {sM}, {ans}}},
		{Name: "h-same-explicit-id", QB: 3, TB: 4, N: 2, MP: 1, Threads: [][]SOp{{{Kind: "sendX", K: 1}}, {{Kind: "sendX", K: 1}}}},
		{Name: "h-explicit-vs-managed", QB: 2, TB: 3, N: 2, MP: 1, Threads: [][]SOp{{{Kind: "sendX", K: 1}}, {sM}, {ans}}},
		{Name: "h-2senders-2responders-N2", QB: 1, TB: 2, N: 2, MP: 1, Threads: [][]SOp{{sM, sM}, {sM}, {ans}, {ans}}},
		{Name: "h-pages-N2", QB: 2, TB: 3, Dse1: true, N: 2, MP: 2, Threads: [][]SOp{{sM}, {{Kind: "answer", P: 1}}, {{Kind: "spurious", K: 7}}}},
	}
}

// CloseScripts are the handler-level scenarios with a closer thread (C16).
func CloseScripts() []Script {
	sM := SOp{Kind: "sendM"}
	return []Script{
		{Name: "hclose-sender-closer", N: 2, MP: 1, QB: 2, TB: 3, Threads: [][]SOp{{sM, {Kind: "recv"}}, {{Kind: "close"}}}},
		{Name: "hclose-sender-responder-closer", N: 2, MP: 1, QB: 2, TB: 3, Threads: [][]SOp{{sM, {Kind: "recv"}}, {{Kind: "answer"}}, {{Kind: "close"}}}},
		{Name: "hclose-2closers", N: 1, MP: 1, QB: 2, TB: 3, Threads: [][]SOp{{sM}, {{Kind: "close"}}, {{Kind: "close"}}}},
	}
}
