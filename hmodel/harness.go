package hmodel

import (
	"fmt"
	"time"

	"github.com/datastax/go-cassandra-native-protocol/client"
	"github.com/datastax/go-cassandra-native-protocol/frame"
	"github.com/datastax/go-cassandra-native-protocol/message"
	"github.com/datastax/go-cassandra-native-protocol/primitive"
	"github.com/datastax/go-cassandra-native-protocol/verifrt/sched"
	"github.com/datastax/go-cassandra-native-protocol/verifrt/vctx"

	"verif/engine/explore"
)

// A Script is a closed multi-threaded scenario over one real in-flight handler.
type Script struct {
	Name    string
	N, MP   int
	QB, TB  int // preemption bound of the quick / thorough tier
	Dse1    bool
	Threads [][]SOp
}

// SOp is one step of a scripted thread.
type SOp struct {
	Kind string // sendM, sendX, answer (oldest unanswered accepted request, final), answerPages (p pages then final), spurious (final for id K), close, recv (drain own last request)
	K    int16
	P    int
}

type call struct {
	thread   int
	managed  bool
	want     int16
	t0, t1   int // logical times of call and return
	ok       bool
	id       int16
	serial   int
	d0, d1   int // logical times of the start / end of the delivery of the final frame (0 = never)
	req      client.InFlightRequest
	sentTags []string
	closedAt int
}

// Handler-level harness for C09/C10: interval-based oracles (DESIGN §3.2).
func (s Script) Harness(cost string, bound int) *explore.Harness {
	return &explore.Harness{Name: s.Name, Cost: cost, Bound: bound, Param: fmt.Sprintf("N=%d maxPending=%d threads=%d", s.N, s.MP, len(s.Threads)), Body: s.body}
}

func (s Script) body(o *explore.Obs) {
	Ver = primitive.ProtocolVersionDse2
	if s.Dse1 {
		Ver = primitive.ProtocolVersionDse1
	}
	ctx, cancel := vctx.WithCancel(vctx.Background())
	defer cancel()
	h := client.VNewHandler(ctx, s.N, s.MP, time.Hour)
	clock := 0
	tick := func() int { clock++; return clock }
	var calls []*call
	closedAt := 0
	running := len(s.Threads)
	sendersLeft := 0
	for _, th := range s.Threads {
		for _, op := range th {
			if op.Kind == "sendM" || op.Kind == "sendX" {
				sendersLeft++
				break
			}
		}
	}
	serial := 0
	oldestUnanswered := func() *call {
		for _, c := range calls {
			if c.ok && c.d0 == 0 && c.t1 != 0 {
				return c
			}
		}
		return nil
	}
	for ti, th := range s.Threads {
		ti, th := ti, th
		sched.GoNamed(fmt.Sprintf("t%d", ti), func() {
			defer func() { running-- }()
			isSender := false
			for _, op := range th {
				if op.Kind == "sendM" || op.Kind == "sendX" {
					isSender = true
				}
			}
			if isSender {
				defer func() { sendersLeft-- }()
			}
			var last *call
			for _, op := range th {
				switch op.Kind {
				case "sendM", "sendX":
					c := &call{thread: ti, managed: op.Kind == "sendM", want: op.K, t0: tick()}
					calls = append(calls, c)
					f := frame.NewFrame(primitive.ProtocolVersionDse2, op.K, &message.Options{})
					req, err := h.Out(f)
					c.t1 = tick()
					if err == nil {
						serial++
						c.ok, c.id, c.req, c.serial = true, req.StreamId(), req, serial
						last = c
					}
					o.Logf("T%d %s -> ok=%v id=%d", ti, op.Kind, c.ok, c.id)
				case "answer":
					// wait for an unanswered accepted request, or for all senders to be finished
					sched.Op("hwait", 0, func() bool { return oldestUnanswered() != nil || sendersLeft == 0 })
					c := oldestUnanswered()
					if c == nil {
						continue
					}
					pages := op.P
					for p := 1; p <= pages+1; p++ {
						final := p == pages+1
						f := respFrame(c.id, final, c.serial, p)
						if final {
							c.d0 = tick()
						}
						err := h.In(f)
						if final {
							c.d1 = tick()
						}
						if err == nil {
							c.sentTags = append(c.sentTags, tagOf(f))
						}
						o.Logf("T%d deliver s%d.p%d err=%v", ti, c.serial, p, err != nil)
					}
				case "spurious":
					err := h.In(respFrame(op.K, true, 99, 1))
					if err == nil && closedAt == 0 {
						// only a violation if no accepted request ever carried this id
						carried := false
						for _, c := range calls {
							if c.ok && c.id == op.K {
								carried = true
							}
						}
						if !carried {
							o.Fail("C10:unknown-id-accepted", "onIncomingFrameReceived", "response for unknown id %d accepted", op.K)
						}
					}
				case "close":
					h.Close()
					closedAt = tick()
					o.Logf("T%d close", ti)
				case "recv":
					if last != nil {
						ch := last.req.Incoming()
						n := 0
						for {
							f, ok := recvFrame(ch)
							if !ok {
								break
							}
							n++
							_ = f
						}
						o.Logf("T%d recv %d frames err=%v", ti, n, last.req.Err() != nil)
					}
				}
			}
		})
	}
	sched.Op("join", 0, func() bool { return running == 0 })
	sched.Atomic(func() { s.judge(o, h, calls, closedAt) })
}

func (s Script) judge(o *explore.Obs, h *client.VHandler, calls []*call, closedAt int) {
	// ---- oracles (C09) ----
	unansweredDuring := func(sc *call) int { // requests certainly unanswered during the whole call sc
		n := 0
		for _, r := range calls {
			if r != sc && r.ok && r.t1 < sc.t0 && (r.d0 == 0 || r.d0 > sc.t1) && (closedAt == 0 || closedAt > sc.t1) {
				n++
			}
		}
		return n
	}
	possiblyHolding := func(sc *call) int { // calls that may hold an id at some time during sc
		n := 0
		for _, r := range calls {
			if r == sc {
				continue
			}
			if r.t0 < sc.t1 && ((r.ok && (r.d1 == 0 || r.d1 > sc.t0)) || (!r.ok && r.t1 > sc.t0)) {
				n++
			}
		}
		return n
	}
	pureManaged := true
	for _, c := range calls {
		if !c.managed {
			pureManaged = false
		}
	}
	for i, a := range calls {
		if !a.ok {
			if pureManaged && closedAt == 0 && possiblyHolding(a) < s.N {
				o.Fail("C09:refused-below-limit", "onOutgoingFrameEnqueued", "send of T%d refused although at most %d of %d requests could be unanswered during the call", a.thread, possiblyHolding(a), s.N)
			}
			continue
		}
		if a.managed && (a.id < 1 || int(a.id) > s.N) {
			o.Fail("C09:id-out-of-range", "borrowStreamId", "managed id %d outside 1..%d", a.id, s.N)
		}
		if !a.managed && a.id != a.want {
			o.Fail("C09:explicit-id-changed", "onOutgoingFrameEnqueued", "explicit id %d became %d", a.want, a.id)
		}
		if unansweredDuring(a) >= s.N {
			o.Fail("C09:accepted-when-full", "onOutgoingFrameEnqueued", "send of T%d accepted (id %d) while %d requests were unanswered during the whole call", a.thread, a.id, unansweredDuring(a))
		}
		if closedAt != 0 && a.t0 > closedAt {
			o.Fail("C16:accepted-after-close", "onOutgoingFrameEnqueued", "send of T%d accepted after close returned", a.thread)
		}
		for _, b := range calls[i+1:] {
			if !b.ok || b.id != a.id {
				continue
			}
			first, second := a, b
			if b.t1 < a.t1 {
				first, second = b, a
			}
			// overlap: the second was accepted before the delivery of the first one's final frame began
			if (first.d0 == 0 || second.t1 < first.d0) && (closedAt == 0 || second.t1 < closedAt) {
				o.Fail("C09:duplicate-id", "onOutgoingFrameEnqueued", "id %d accepted for T%d and T%d while both unanswered", a.id, first.thread, second.thread)
			}
		}
	}
	// ---- oracles (C10): each answered request got exactly its own frames, in order, then completion ----
	for _, c := range calls {
		if !c.ok {
			continue
		}
		ch := c.req.Incoming()
		var got []string
		for len(ch) > 0 {
			f := <-ch
			got = append(got, tagOf(f))
		}
		want := c.sentTags
		if closedAt != 0 || len(want) > s.MP {
			// frames may legitimately be lost to close / overflow: received must be a prefix-closed subsequence of its own frames
			if !isSubsequence(got, want) {
				o.Fail("C10:wrong-delivery", "inFlightRequest.onFrameReceived", "request s%d received %v, frames sent for it: %v", c.serial, got, want)
			}
		} else if fmt.Sprint(got) != fmt.Sprint(want) {
			o.Fail("C10:wrong-delivery", "inFlightRequest.onFrameReceived", "request s%d received %v, expected exactly %v", c.serial, got, want)
		}
		if c.d1 != 0 && !c.req.IsDone() {
			o.Fail("C10:not-completed", "inFlightRequest.close", "request s%d not completed after its final frame", c.serial)
		}
		if closedAt != 0 && !c.req.IsDone() {
			o.Fail("C16:not-completed-on-close", "inFlightRequest.close", "request s%d not completed after handler close", c.serial)
		}
		if closedAt != 0 && c.d0 == 0 && c.req.IsDone() && c.req.Err() == nil {
			o.Fail("C16:closed-without-error", "inFlightRequest.close", "unanswered request s%d completed without error on close", c.serial)
		}
	}
	// ---- conservation at the end of every schedule (C09) ----
	if closedAt == 0 {
		for _, k := range h.InFlightIds() {
			_ = h.In(respFrame(k, true, 0, 1))
		}
		got := map[int16]bool{}
		for i := 0; i < s.N; i++ {
			req, err := h.Out(frame.NewFrame(primitive.ProtocolVersionDse2, 0, &message.Options{}))
			if err != nil {
				o.Fail("C09:ids-lost", "borrowStreamId/releaseStreamId", "after all requests were answered only %d of %d new managed sends succeed: %v", i, s.N, err)
				break
			}
			if got[req.StreamId()] {
				o.Fail("C09:duplicate-id", "borrowStreamId", "id %d handed out twice after recycling", req.StreamId())
			}
			got[req.StreamId()] = true
		}
	}
	h.Close()
}

func isSubsequence(got, want []string) bool {
	j := 0
	for _, g := range got {
		for j < len(want) && want[j] != g {
			j++
		}
		if j == len(want) {
			return false
		}
		j++
	}
	return true
}

func recvFrame(ch <-chan *frame.Frame) (*frame.Frame, bool) {
	sched.Op("hrecv", 0, func() bool { return len(ch) > 0 || chanClosed(ch) })
	if len(ch) > 0 {
		return <-ch, true
	}
	return nil, false
}

func chanClosed(ch interface{}) bool { return vchanIsClosed(ch) }
