// Package c18ops holds the operation bodies of C18: encode/decode calls on SHARED codec
// instances. The same bodies run under the controlled scheduler (exhaustive part) and free-running
// under the race detector (supplement).
package c18ops

import (
	"bytes"
	"fmt"
	"io"
	"math/big"
	"reflect"
	"sort"

	"github.com/datastax/go-cassandra-native-protocol/compression/lz4"
	"github.com/datastax/go-cassandra-native-protocol/compression/snappy"
	"github.com/datastax/go-cassandra-native-protocol/datacodec"
	"github.com/datastax/go-cassandra-native-protocol/datatype"
	"github.com/datastax/go-cassandra-native-protocol/frame"
	"github.com/datastax/go-cassandra-native-protocol/message"
	"github.com/datastax/go-cassandra-native-protocol/primitive"
	"github.com/datastax/go-cassandra-native-protocol/segment"
)

// shared instances
var (
	FrameLz4            = frame.NewCodecWithCompression(&lz4.Compressor{})
	FrameSnappy         = frame.NewCodecWithCompression(&snappy.Compressor{})
	RawLz4              = frame.NewRawCodecWithCompression(&lz4.Compressor{})
	SegPlain            = segment.NewCodec()
	SegLz4              = segment.NewCodecWithCompression(&lz4.Compressor{})
	Lz4                 = lz4.Compressor{}
	Snappy              = snappy.Compressor{}
	ListOfInt, _        = datacodec.NewList(datatype.NewList(datatype.Int))
	MapVarcharVarint, _ = datacodec.NewMap(datatype.NewMap(datatype.Varchar, datatype.Varint))
	udtType, _          = datatype.NewUserDefined("ks", "t", []string{"a", "b"}, []datatype.DataType{datatype.Int, datatype.Varchar})
	UdtCodec, _         = datacodec.NewUserDefined(udtType)
	TupleCodec, _       = datacodec.NewTuple(datatype.NewTuple(datatype.Int, datatype.Varchar))
)

// two Go struct types for the same UDT / tuple: fields matched by name (case-insensitively) and by tag,
// declared in different orders - each goroutine uses its own
type udtA struct {
	A int32
	B string
}
type udtB struct {
	Second string `cassandra:"b"`
	Extra  bool
	First  int32 `cassandra:"a"`
}
type tupA struct {
	N int32
	S string
}

func payload(n int, seed byte) []byte {
	b := make([]byte, n)
	for i := range b {
		b[i] = seed + byte(i%7)
	}
	return b
}

// Op is one operation; it returns a rendering of everything it produced.
type Op struct {
	Name string
	Run  func() string
}

func frameOp(name string, codec frame.Codec, f func() *frame.Frame) Op {
	return Op{name, func() string {
		fr := f()
		buf := &bytes.Buffer{}
		if err := codec.EncodeFrame(fr, buf); err != nil {
			return "encode error: " + err.Error()
		}
		wire := append([]byte{}, buf.Bytes()...)
		got, err := codec.DecodeFrame(bytes.NewReader(wire))
		if err != nil {
			return fmt.Sprintf("wire=%x decode error: %v", wire, err)
		}
		return fmt.Sprintf("wire=%x decoded=%v|%v", wire, got.Header, got.Body.Message)
	}}
}

func query(v primitive.ProtocolVersion, tag string, n int, compress bool) func() *frame.Frame {
	return func() *frame.Frame {
		f := frame.NewFrame(v, 3, &message.Query{Query: tag, Options: &message.QueryOptions{Consistency: primitive.ConsistencyLevelOne, PositionalValues: []*primitive.Value{{Type: primitive.ValueTypeRegular, Contents: payload(n, tag[0])}}}})
		f.SetCompress(compress)
		return f
	}
}

func rows(v primitive.ProtocolVersion, tag string, n int) func() *frame.Frame {
	return func() *frame.Frame {
		f := frame.NewFrame(v, 4, &message.RowsResult{Metadata: &message.RowsMetadata{ColumnCount: 1, PagingState: []byte(tag), Columns: []*message.ColumnMetadata{{Keyspace: "ks", Table: "t", Name: tag, Type: datatype.NewList(datatype.Varint)}}}, Data: message.RowSet{{payload(n, tag[0])}}})
		f.SetCompress(true)
		return f
	}
}

func segOp(name string, codec segment.Codec, n int, seed byte) Op {
	return Op{name, func() string {
		buf := &bytes.Buffer{}
		if err := codec.EncodeSegment(&segment.Segment{Header: &segment.Header{IsSelfContained: true}, Payload: &segment.Payload{UncompressedData: payload(n, seed)}}, buf); err != nil {
			return "encode error: " + err.Error()
		}
		wire := append([]byte{}, buf.Bytes()...)
		s, err := codec.DecodeSegment(bytes.NewReader(wire))
		if err != nil {
			return fmt.Sprintf("wire=%x decode error: %v", wire, err)
		}
		return fmt.Sprintf("wire=%x payload=%x", wire, s.Payload.UncompressedData)
	}}
}

func rawOp(name string, f func() *frame.Frame) Op {
	return Op{name, func() string {
		r, err := RawLz4.ConvertToRawFrame(f())
		if err != nil {
			return "convert error: " + err.Error()
		}
		buf := &bytes.Buffer{}
		if err := RawLz4.EncodeRawFrame(r, buf); err != nil {
			return "encode error: " + err.Error()
		}
		back, err := RawLz4.ConvertFromRawFrame(r)
		if err != nil {
			return fmt.Sprintf("wire=%x convert-back error: %v", buf.Bytes(), err)
		}
		return fmt.Sprintf("wire=%x back=%v", buf.Bytes(), back.Body.Message)
	}}
}

func valueOp(name string, codec datacodec.Codec, src interface{}, dest func() interface{}) Op {
	return Op{name, func() string {
		b, err := codec.Encode(src, primitive.ProtocolVersion4)
		if err != nil {
			return "encode error: " + err.Error()
		}
		d := dest()
		wasNull, err := codec.Decode(b, d, primitive.ProtocolVersion4)
		if err != nil {
			return fmt.Sprintf("bytes=%x decode error: %v", b, err)
		}
		return fmt.Sprintf("bytes=%x null=%v value=%v", b, wasNull, render(d))
	}}
}

func render(d interface{}) string {
	switch x := d.(type) {
	case *big.Int:
		return x.String()
	case *datacodec.CqlDecimal:
		return fmt.Sprintf("%v e-%d", x.Unscaled, x.Scale)
	case *[]int32:
		return fmt.Sprint(*x)
	case *map[string]*big.Int:
		return fmt.Sprint(len(*x), (*x)["k"])
	case *string:
		return *x
	case *int64:
		return fmt.Sprint(*x)
	}
	return fmt.Sprint(d)
}

func compOp(name string, comp func(io.Reader, io.Writer) error, decomp func(io.Reader, io.Writer) error, n int, seed byte) Op {
	return Op{name, func() string {
		c := &bytes.Buffer{}
		if err := comp(bytes.NewBuffer(payload(n, seed)), c); err != nil {
			return "compress error: " + err.Error()
		}
		cb := append([]byte{}, c.Bytes()...)
		d := &bytes.Buffer{}
		if err := decomp(bytes.NewBuffer(cb), d); err != nil {
			return fmt.Sprintf("compressed=%x decompress error: %v", cb, err)
		}
		return fmt.Sprintf("compressed=%x out=%x", cb, d.Bytes())
	}}
}

func bigNeg(bits uint) *big.Int {
	x := new(big.Int).Lsh(big.NewInt(1), bits)
	x.Add(x, big.NewInt(12345))
	return x.Neg(x)
}

// Scenario is a set of threads, each with its own operations on the shared instances.
type Scenario struct {
	Name    string
	Threads [][]Op
	// Fresh, when set, builds the threads over NEWLY CONSTRUCTED codec instances; the harness calls it at
	// the start of every execution (and once more for the sequential reference), so that the FIRST use of an
	// instance is the concurrent one - state a codec builds lazily on first use is otherwise already settled
	// by the time the threads start.
	Fresh func() [][]Op
}

func decodeIfaceOp(name string, codec datacodec.Codec, src interface{}) Op {
	return Op{name, func() string {
		b, err := codec.Encode(src, primitive.ProtocolVersion4)
		if err != nil {
			return "encode error: " + err.Error()
		}
		var d interface{}
		wasNull, err := codec.Decode(b, &d, primitive.ProtocolVersion4)
		if err != nil {
			return fmt.Sprintf("bytes=%x decode error: %v", b, err)
		}
		return fmt.Sprintf("bytes=%x null=%v value=%s (%T)", b, wasNull, deepStr(reflect.ValueOf(d)), d)
	}}
}

func freshCodecs() [][]Op {
	list, _ := datacodec.NewList(datatype.NewList(datatype.Int))
	set, _ := datacodec.NewSet(datatype.NewSet(datatype.Varchar))
	mp, _ := datacodec.NewMap(datatype.NewMap(datatype.Varchar, datatype.NewList(datatype.Int)))
	tup, _ := datacodec.NewTuple(datatype.NewTuple(datatype.Int, datatype.NewList(datatype.Varchar)))
	return [][]Op{
		{decodeIfaceOp("list-a", list, []int32{1, 2}), decodeIfaceOp("map-a", mp, map[string][]int32{"k": {7}}), decodeIfaceOp("tuple-a", tup, []interface{}{int32(1), []string{"x"}}), decodeIfaceOp("set-a", set, []string{"s"})},
		{decodeIfaceOp("list-b", list, []int32{-5}), decodeIfaceOp("map-b", mp, map[string][]int32{"q": {8, 9}}), decodeIfaceOp("tuple-b", tup, []interface{}{int32(2), []string{"y", "z"}}), decodeIfaceOp("set-b", set, []string{"t", "u"})},
	}
}

// Scenarios: each thread encodes/decodes its OWN frames, segments and values.
func Scenarios(three bool) []Scenario {
	v4, v5 := primitive.ProtocolVersion4, primitive.ProtocolVersion5
	sc := []Scenario{
		{Name: "frames-lz4", Threads: [][]Op{
			{frameOp("query-a", FrameLz4, query(v4, "a-query", 300, true)), frameOp("rows-a", FrameLz4, rows(v4, "a-rows", 90))},
			{frameOp("query-b", FrameLz4, query(v4, "b-query", 40, true)), frameOp("rows-b", FrameLz4, rows(v5, "b-rows", 700))},
		}},
		{Name: "frames-snappy-raw", Threads: [][]Op{
			{frameOp("query-a", FrameSnappy, query(v4, "a-query", 300, true)), rawOp("raw-a", query(v4, "a-raw", 64, true))},
			{frameOp("query-b", FrameSnappy, query(v4, "b-query", 33, true)), rawOp("raw-b", rows(v4, "b-raw", 200))},
		}},
		{Name: "segments", Threads: [][]Op{
			{segOp("lz4-a", SegLz4, 500, 'a'), segOp("plain-a", SegPlain, 40, 'a')},
			{segOp("lz4-b", SegLz4, 90, 'b'), segOp("plain-b", SegPlain, 300, 'b')},
		}},
		{Name: "values", Threads: [][]Op{
			{valueOp("varint-a", datacodec.Varint, bigNeg(70), func() interface{} { return new(big.Int) }), valueOp("decimal-a", datacodec.Decimal, datacodec.CqlDecimal{Unscaled: bigNeg(17), Scale: 3}, func() interface{} { return &datacodec.CqlDecimal{} })},
			{valueOp("varint-b", datacodec.Varint, bigNeg(9), func() interface{} { return new(big.Int) }), valueOp("decimal-b", datacodec.Decimal, datacodec.CqlDecimal{Unscaled: bigNeg(40), Scale: 9}, func() interface{} { return &datacodec.CqlDecimal{} })},
		}},
		{Name: "collections", Threads: [][]Op{
			{valueOp("list-a", ListOfInt, []int32{1, 2, 3}, func() interface{} { return &[]int32{} }), valueOp("map-a", MapVarcharVarint, map[string]*big.Int{"k": bigNeg(33)}, func() interface{} { return &map[string]*big.Int{} })},
			{valueOp("list-b", ListOfInt, []int32{-7}, func() interface{} { return &[]int32{} }), valueOp("map-b", MapVarcharVarint, map[string]*big.Int{"k": bigNeg(12)}, func() interface{} { return &map[string]*big.Int{} })},
		}},
		{Name: "structs", Threads: [][]Op{
			{valueOp("udt-a", UdtCodec, udtA{A: 41, B: "a-side"}, func() interface{} { return &udtA{} }), valueOp("tuple-a", TupleCodec, tupA{N: 7, S: "a-tuple"}, func() interface{} { return &tupA{} })},
			{valueOp("udt-b", UdtCodec, udtB{Second: "b-side", First: -9}, func() interface{} { return &udtB{} }), valueOp("udt-b-map", UdtCodec, map[string]interface{}{"a": int32(3), "b": "b-map"}, func() interface{} { return &udtB{} })},
		}},
		{Name: "fresh-codecs", Fresh: freshCodecs, Threads: freshCodecs()},
		{Name: "compressors", Threads: [][]Op{
			{compOp("lz4len-a", Lz4.CompressWithLength, Lz4.DecompressWithLength, 400, 'a'), compOp("snappy-a", Snappy.CompressWithLength, Snappy.DecompressWithLength, 70, 'a')},
			{compOp("lz4raw-b", Lz4.Compress, Lz4.Decompress, 120, 'b'), compOp("snappy-b", Snappy.CompressWithLength, Snappy.DecompressWithLength, 500, 'b')},
		}},
	}
	if three {
		for i := range sc {
			t := sc[i].Threads
			third := []Op{t[1][1], t[0][0]}
			sc[i].Threads = append(t, third)
			if f := sc[i].Fresh; f != nil {
				sc[i].Fresh = func() [][]Op {
					t := f()
					return append(t, []Op{t[1][1], t[0][0]})
				}
			}
		}
	}
	return sc
}

// deepStr renders a decoded value by content: pointers are followed (their addresses differ from run to
// run), map entries are sorted.
func deepStr(v reflect.Value) string {
	if !v.IsValid() {
		return "nil"
	}
	switch v.Kind() {
	case reflect.Ptr, reflect.Interface:
		if v.IsNil() {
			return "nil"
		}
		return "&" + deepStr(v.Elem())
	case reflect.Slice, reflect.Array:
		if v.Kind() == reflect.Slice && v.IsNil() {
			return "nil"
		}
		out := "["
		for i := 0; i < v.Len(); i++ {
			out += deepStr(v.Index(i)) + " "
		}
		return out + "]"
	case reflect.Map:
		var es []string
		for _, k := range v.MapKeys() {
			es = append(es, deepStr(k)+":"+deepStr(v.MapIndex(k)))
		}
		sort.Strings(es)
		return "map" + fmt.Sprint(es)
	case reflect.Struct:
		out := "{"
		for i := 0; i < v.NumField(); i++ {
			if v.Type().Field(i).PkgPath == "" {
				out += deepStr(v.Field(i)) + " "
			}
		}
		return out + "}"
	}
	return fmt.Sprint(v.Interface())
}
