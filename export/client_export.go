//go:build go1.21

package client

import (
	"context"
	"net"
	"sort"
	"time"

	"github.com/datastax/go-cassandra-native-protocol/frame"
	"github.com/datastax/go-cassandra-native-protocol/primitive"
)

// Seams for the verification harnesses (added by build overlay only; never part of the repository).

type VHandler struct{ h *inFlightRequestsHandler }

func VNewHandler(ctx context.Context, maxInFlight, maxPending int, timeout time.Duration) *VHandler {
	return &VHandler{newInFlightRequestsHandler("h", ctx, maxInFlight, maxPending, timeout)}
}
func (v *VHandler) Out(f *frame.Frame) (InFlightRequest, error) { return v.h.onOutgoingFrameEnqueued(f) }
func (v *VHandler) In(f *frame.Frame) error                      { return v.h.onIncomingFrameReceived(f) }
func (v *VHandler) Close()                                       { v.h.close() }

// InFlightIds returns the sorted keys of the in-flight map (no locking: callers run under the scheduler).
func (v *VHandler) InFlightIds() []int16 {
	var ids []int16
	for k := range v.h.inFlight {
		ids = append(ids, k)
	}
	sort.Slice(ids, func(i, j int) bool { return ids[i] < ids[j] })
	return ids
}

// FreeIds returns the content of the free-id FIFO in order, without disturbing it.
func (v *VHandler) FreeIds() []int16 {
	ch := v.h.streamIds
	if ch == nil {
		return nil
	}
	n := len(ch)
	out := make([]int16, 0, n)
	for i := 0; i < n; i++ {
		id, ok := <-ch
		if !ok {
			break
		}
		out = append(out, id)
	}
	if !v.IsClosedFlag() {
		for _, id := range out {
			ch <- id
		}
	}
	return out
}

func (v *VHandler) IsClosedFlag() bool { return v.h.closed == 1 }

// ReqState describes one in-flight entry.
type ReqState struct {
	Id      int16
	Managed bool
	Queued  int
	Done    bool
}

func (v *VHandler) Requests() []ReqState {
	var out []ReqState
	for k, r := range v.h.inFlight {
		out = append(out, ReqState{Id: k, Managed: r.managedStreamId, Queued: len(r.incoming), Done: r.done})
	}
	sort.Slice(out, func(i, j int) bool { return out[i].Id < out[j].Id })
	return out
}

func VNewClientConn(conn net.Conn, ctx context.Context, credentials *AuthCredentials, compression primitive.Compression, maxInFlight, maxPending int, readTimeout time.Duration, handlers []EventHandler) (*CqlClientConnection, error) {
	return newCqlClientConnection(conn, ctx, credentials, compression, maxInFlight, maxPending, readTimeout, handlers)
}

func VNewServerConn(conn net.Conn, ctx context.Context, credentials *AuthCredentials, maxInFlight int, idleTimeout time.Duration, handlers []RequestHandler, rawHandlers []RawRequestHandler, onClose func(*CqlServerConnection)) (*CqlServerConnection, error) {
	if onClose == nil {
		onClose = func(*CqlServerConnection) {}
	}
	return newCqlServerConnection(conn, ctx, credentials, maxInFlight, idleTimeout, handlers, rawHandlers, onClose)
}

func (c *CqlClientConnection) VModernLayout() bool { return c.modernLayout }
func (c *CqlServerConnection) VModernLayout() bool { return c.modernLayout }
