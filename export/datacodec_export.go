//go:build go1.21

package datacodec

import "math/big"

// Seams for the verification harnesses (added by build overlay only): the intSize-parameterised
// helpers, so that the 32-bit branches can be driven on a 64-bit machine.

func VInt64ToInt(val int64, intSize int) (int, error)     { return int64ToInt(val, intSize) }
func VInt64ToUint(val int64, intSize int) (uint, error)   { return int64ToUint(val, intSize) }
func VBigIntToInt(val *big.Int, intSize int) (int, error) { return bigIntToInt(val, intSize) }
func VBigIntToUint(val *big.Int, intSize int) (uint, error) {
	return bigIntToUint(val, intSize)
}
