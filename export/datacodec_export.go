//go:build go1.21

package datacodec

import "math/big"

// Seams for the verification harnesses (added by build overlay only): the intSize-parameterised
// helpers, so that the 32-bit branches can be driven on a 64-bit machine.

func VInt64ToInt(val int64, intSize int) (int, error)     { return int64ToInt(val, intSize) }
func VInt64ToUint(val int64, intSize int) (uint, error)   { return int64ToUint(val, intSize) }
func VBigIntToInt(val *big.Int, intSize int) (int, error) { return bigIntToInt(val, intSize) }
func VBigIntToUint(val *big.Int, intSize int) (uint, error) {
	return bigIntToUint(val, intSize)
}

// overflow-checked arithmetic of the time conversions
func VAddExact(x, y int64) (int64, bool)      { return addExact(x, y) }
func VMultiplyExact(x, y int64) (int64, bool) { return multiplyExact(x, y) }
func VFloorDiv(x, y int64) int64              { return floorDiv(x, y) }
func VFloorMod(x, y int64) int64              { return floorMod(x, y) }
