//go:build go1.21

// Package sched is a cooperative, deterministic scheduler: exactly one goroutine of the system
// under test runs at a time, every synchronisation operation is a scheduling point, blocking is
// modelled (a thread whose next operation is not enabled is simply not schedulable), and time is
// virtual (it advances only when nothing else can run). An execution is fully determined by the
// vector of choices taken at the decision points; the explorer (verif/engine/explore) enumerates
// those vectors.
//
// This package is mapped *virtually* into the module under test by a build overlay
// (github.com/datastax/go-cassandra-native-protocol/verifrt/sched), see tools/instr.
package sched

import (
	"fmt"
	"runtime/debug"
	"sort"
	"strings"
)

// Thread is one scheduled goroutine.
type Thread struct {
	ID     int
	Name   string
	wake   chan struct{}
	exited chan struct{}
	done   bool
	cond   func() bool // nil = enabled
	op     string
	obj    int
	// spawner is set while the thread runs eagerly from its start to its first scheduling point
	spawner *Thread
	atomic  int
	quiet   int
}

// Timer is a pending virtual-time event. fire runs in scheduler context and must not block or
// reach a scheduling point.
type Timer struct {
	id       int
	deadline int64
	fire     func()
	stopped  bool
	fired    bool
	Name     string
}

// Decision is one recorded choice.
type Decision struct {
	N          int  // number of options
	Chosen     int  // option taken
	Kind       byte // 't' thread choice, 'c' select-case / free choice, 'm' map order
	CurEnabled bool // for 't': option 0 was "continue the running thread"
}

// Exec is the result of one execution.
type Exec struct {
	Decisions []Decision
	Trace     []string // only when KeepTrace
	TraceHash uint64
	Panic     string   // first panic of a thread, with stack
	PanicVal  string   // panic value only
	PanicFn   string   // innermost non-runtime, non-shim function on the panicking stack
	Deadlock  bool     // nobody enabled, no timer pending, main not finished
	Blocked   []string // description of the blocked threads at a deadlock / leak
	Leaked    int      // threads still alive (blocked) at the end, after main finished and all timers ran
	StepCap   bool     // per-execution step cap hit (livelock or runaway)
	Diverged  string   // replay divergence: a prefix choice was out of range
	Steps     int
	Points    int // access-instrumentation points passed
	Threads   int
	EndTime   int64
}

// Choices returns the choice vector of the execution.
func (x *Exec) Choices() []int {
	c := make([]int, len(x.Decisions))
	for i, d := range x.Decisions {
		c[i] = d.Chosen
	}
	return c
}

// Scheduler holds the state of the current execution.
type Scheduler struct {
	threads   []*Thread
	cur       *Thread
	prefix    []int
	x         *Exec
	finished  chan struct{}
	aborted   bool
	nextObj   int
	keepTrace bool
	now       int64
	timers    []*Timer
	nextTimer int
	h         uint64
	maxSteps  int
	lastKey   string
	aborter   *Thread
	forceStep int     // at this scheduling point ...
	forceThr  *Thread // ... this thread is chosen if it is enabled (fault injection at a step boundary)
}

// S is the scheduler of the execution in progress (nil outside Run).
var S *Scheduler

// MaxSteps is the per-execution cap on scheduling points.
var MaxSteps = 100000

type abortT struct{}

var resetHooks []func()

// OnReset registers a function run at the start of every execution (shims reset side tables).
func OnReset(f func()) { resetHooks = append(resetHooks, f) }

// Run executes main as thread 0 under the scheduler, replaying prefix and then taking choice 0.
func Run(prefix []int, keepTrace bool, main func()) *Exec {
	s := &Scheduler{prefix: prefix, x: &Exec{}, finished: make(chan struct{}), keepTrace: keepTrace, maxSteps: MaxSteps}
	s.h = 1469598103934665603
	S = s
	for _, f := range resetHooks {
		f()
	}
	t := &Thread{ID: 0, Name: "main", wake: make(chan struct{}, 1), exited: make(chan struct{})}
	s.threads = append(s.threads, t)
	s.cur = t
	go s.body(t, main)
	t.wake <- struct{}{}
	<-s.finished
	// Unwind what is left, one goroutine at a time (each Op panics with abortT once aborted), so
	// that nothing of this execution is still running when the next one starts.
	if s.aborter != nil {
		<-s.aborter.exited
	}
	for i := 0; i < len(s.threads); i++ {
		th := s.threads[i]
		select {
		case <-th.exited:
			continue
		default:
		}
		select {
		case th.wake <- struct{}{}:
		default:
		}
		<-th.exited
	}
	s.x.TraceHash = s.h
	s.x.Threads = len(s.threads)
	s.x.EndTime = s.now
	S = nil
	return s.x
}

func (s *Scheduler) body(t *Thread, f func()) {
	defer close(t.exited)
	<-t.wake
	if s.aborted {
		return
	}
	defer func() {
		if r := recover(); r != nil {
			if _, ok := r.(abortT); ok {
				return
			}
			if s.aborted {
				return // secondary panic while unwinding
			}
			if s.x.Panic == "" {
				st := string(debug.Stack())
				s.x.PanicVal = fmt.Sprint(r)
				s.x.PanicFn = panicSite(st)
				s.x.Panic = fmt.Sprintf("thread %d (%s): %v\n%s", t.ID, t.Name, r, st)
			}
			s.abort()
			return
		}
		if s.aborted {
			return
		}
		t.done = true
		s.mix("exit", t.ID, 0)
		if sp := t.spawner; sp != nil {
			// finished before reaching any scheduling point: give control back to the spawner
			t.spawner = nil
			s.cur = sp
			sp.wake <- struct{}{}
			return
		}
		func() {
			defer func() {
				if r := recover(); r != nil {
					if _, ok := r.(abortT); !ok {
						panic(r)
					}
				}
			}()
			s.schedule(t, true)
		}()
	}()
	f()
}

// panicSite extracts the innermost frame of the stack that belongs neither to the Go runtime nor
// to the simulated runtime: the function of the code under test (or harness) that panicked.
func panicSite(stack string) string {
	lines := strings.Split(stack, "\n")
	seenPanic := false
	for _, l := range lines {
		if strings.HasPrefix(l, "\t") || l == "" {
			continue
		}
		if strings.HasPrefix(l, "panic(") {
			seenPanic = true
			continue
		}
		if !seenPanic {
			continue
		}
		if strings.HasPrefix(l, "runtime.") || strings.Contains(l, "/verifrt/") || strings.HasPrefix(l, "runtime/") {
			continue
		}
		if i := strings.LastIndex(l, "("); i > 0 {
			l = l[:i]
		}
		if i := strings.LastIndex(l, "/"); i >= 0 {
			l = l[i+1:]
		}
		return l
	}
	return "?"
}

func (s *Scheduler) abort() {
	if !s.aborted {
		s.aborted = true
		s.aborter = s.cur
		close(s.finished)
	}
}

func (s *Scheduler) mix(op string, a, b int) {
	for i := 0; i < len(op); i++ {
		s.h ^= uint64(op[i])
		s.h *= 1099511628211
	}
	s.h ^= uint64(a)*31 + uint64(b)
	s.h *= 1099511628211
}

// Active reports whether an execution is in progress.
func Active() bool { return S != nil }

// NewObj returns a fresh allocation-order object id (never an address).
func NewObj() int {
	if S == nil {
		return 0
	}
	S.nextObj++
	return S.nextObj
}

// Cur returns the running thread's id.
func Cur() int { return S.cur.ID }

// Atomic runs f without yielding at scheduling points whose operation is enabled (used for the
// oracle and tear-down phases of harnesses, which are not part of the explored behaviour).
func Atomic(f func()) {
	t := S.cur
	t.atomic++
	defer func() { t.atomic-- }()
	f()
}

// Quiet is Atomic for a phase whose own path may legitimately depend on what earlier executions left
// in package-level state of the code under test (a prologue that brings caches and pools to a
// canonical state): its scheduling points are neither yielded at nor mixed into the trace hash.
func Quiet(f func()) {
	t := S.cur
	t.atomic++
	t.quiet++
	defer func() { t.atomic--; t.quiet-- }()
	f()
}

// Go spawns a new scheduled thread.
func Go(f func()) { GoNamed("", f) }

// GoNamed spawns a new scheduled thread with a name used in traces and reports.
func GoNamed(name string, f func()) {
	s := S
	if s == nil {
		panic("sched.Go outside an execution")
	}
	if s.aborted {
		panic(abortT{})
	}
	s.mix("go", s.cur.ID, len(s.threads))
	parent := s.cur
	t := &Thread{ID: len(s.threads), Name: name, wake: make(chan struct{}, 1), exited: make(chan struct{}), spawner: parent}
	s.threads = append(s.threads, t)
	go s.body(t, f)
	// run the child eagerly up to its first scheduling point
	s.cur = t
	t.wake <- struct{}{}
	<-parent.wake
	if s.aborted {
		panic(abortT{})
	}
}

// Op is a scheduling point. The calling thread is enabled only when cond() holds (nil = always).
// When Op returns, cond() is true and no other thread has run since it was evaluated.
func Op(op string, obj int, cond func() bool) {
	s := S
	if s == nil {
		panic("sched.Op outside an execution: " + op)
	}
	if s.aborted {
		panic(abortT{})
	}
	t := s.cur
	if t.atomic > 0 && t.spawner == nil && (cond == nil || cond()) {
		s.lastKey = ""
		if t.quiet == 0 {
			s.mix(op, t.ID, obj)
		}
		return
	}
	t.cond = cond
	t.op = op
	t.obj = obj
	if sp := t.spawner; sp != nil {
		// first scheduling point of a freshly spawned thread: thread start is not a visible
		// operation, so the thread was run eagerly up to here; park and resume the spawner.
		t.spawner = nil
		s.cur = sp
		sp.wake <- struct{}{}
		<-t.wake
		if s.aborted {
			panic(abortT{})
		}
	} else {
		s.schedule(t, false)
	}
	t.cond = nil
	s.lastKey = fmt.Sprintf("%d/%s/%d", t.ID, op, obj)
	s.mix(op, t.ID, obj)
}

// LastOpWas reports whether the most recent scheduling point passed by any thread was (cur, op, obj).
func LastOpWas(op string, obj int) bool {
	s := S
	return s.lastKey == fmt.Sprintf("%d/%s/%d", s.cur.ID, op, obj)
}

// Touch invalidates LastOpWas (called by operations that are not scheduling points but whose
// effects must not be merged with a preceding one).
func Touch() { S.lastKey = "" }

// Choose records a decision among n options that is not a thread choice (ready select cases,
// map iteration order).
func Choose(n int, kind byte) int {
	s := S
	if n <= 1 {
		return 0
	}
	if s.aborted {
		panic(abortT{})
	}
	if s.cur.atomic > 0 {
		return 0
	}
	c := s.next(n, false, kind)
	s.mix("choose", n, c)
	return c
}

func (s *Scheduler) next(n int, curEnabled bool, kind byte) int {
	i := len(s.x.Decisions)
	c := 0
	if i < len(s.prefix) {
		c = s.prefix[i]
		if c >= n || c < 0 {
			s.x.Diverged = fmt.Sprintf("replay divergence at decision %d: choice %d of %d options", i, c, n)
			s.abort()
			panic(abortT{})
		}
	}
	s.x.Decisions = append(s.x.Decisions, Decision{N: n, Chosen: c, Kind: kind, CurEnabled: curEnabled})
	return c
}

// Steps returns the number of scheduling points passed so far in this execution.
func Steps() int { return S.x.Steps }

// ForceAt makes the scheduler hand control to the calling thread's child t as soon as the
// execution has passed n scheduling points and t is enabled, without recording a decision: the
// position of an injected fault is a parameter of the harness, not a bounded choice.
func ForceAt(n int, t *Thread) {
	S.forceStep, S.forceThr = n, t
}

// GoForced spawns a thread that is scheduled exactly at scheduling point n.
func GoForced(name string, n int, f func()) {
	GoForcedOrSkip(name, n, f)
}

// GoForcedOrSkip is GoForced returning a function that withdraws the thread: if scheduling point
// n has not been reached when it is called (the execution turned out shorter), the thread ends
// without running f. It reports whether f was skipped.
func GoForcedOrSkip(name string, n int, f func()) (withdraw func() bool) {
	s := S
	withdrawn, started := false, false
	reached := func() bool { return withdrawn || s.x.Steps >= n }
	GoNamed(name, func() {
		Op("fault-point", 0, reached)
		if withdrawn {
			return
		}
		started = true
		f()
	})
	ForceAt(n, s.threads[len(s.threads)-1])
	return func() bool {
		if started {
			return false
		}
		withdrawn = true
		return true
	}
}

// Now returns the virtual time in nanoseconds since the start of the execution.
func Now() int64 {
	if S == nil {
		return 0
	}
	return S.now
}

// AddTimer registers fire to run at virtual time deadline.
func AddTimer(deadline int64, name string, fire func()) *Timer {
	s := S
	s.nextTimer++
	tm := &Timer{id: s.nextTimer, deadline: deadline, fire: fire, Name: name}
	s.timers = append(s.timers, tm)
	return tm
}

// Stop cancels the timer; it reports whether the timer had not fired yet.
func (tm *Timer) Stop() bool {
	if tm == nil || tm.fired || tm.stopped {
		return false
	}
	tm.stopped = true
	s := S
	if s != nil {
		for i, x := range s.timers {
			if x == tm {
				s.timers = append(s.timers[:i], s.timers[i+1:]...)
				break
			}
		}
	}
	return true
}

// Sleep blocks the calling thread for d nanoseconds of virtual time.
func Sleep(d int64) {
	s := S
	dl := s.now + d
	fired := false
	AddTimer(dl, "sleep", func() { fired = true })
	Op("sleep", 0, func() bool { return fired })
}

func (s *Scheduler) dueTimers() []*Timer {
	var due []*Timer
	for _, tm := range s.timers {
		if tm.deadline <= s.now {
			due = append(due, tm)
		}
	}
	sort.Slice(due, func(i, j int) bool { return due[i].id < due[j].id })
	return due
}

func (s *Scheduler) schedule(t *Thread, exiting bool) {
	for {
		if s.aborted {
			panic(abortT{})
		}
		s.x.Steps++
		if s.x.Steps > s.maxSteps {
			s.x.StepCap = true
			s.abort()
			panic(abortT{})
		}
		// options: current first if enabled, then other threads by ascending id, then due timers
		var enabled []*Thread
		curEnabled := !exiting && (t.cond == nil || t.cond())
		if curEnabled {
			enabled = append(enabled, t)
		}
		for _, th := range s.threads {
			if th == t || th.done {
				continue
			}
			if th.cond == nil || th.cond() {
				enabled = append(enabled, th)
			}
		}
		due := s.dueTimers()
		nopt := len(enabled) + len(due)
		if nopt == 0 {
			// quiescent: advance the clock to the earliest pending timer
			if len(s.timers) > 0 {
				min := s.timers[0].deadline
				for _, tm := range s.timers {
					if tm.deadline < min {
						min = tm.deadline
					}
				}
				if min > s.now {
					s.now = min
				}
				s.mix("clock", int(s.now%1000003), 0)
				continue
			}
			alive := 0
			for _, th := range s.threads {
				if !th.done {
					alive++
					s.x.Blocked = append(s.x.Blocked, fmt.Sprintf("T%d(%s) blocked at %s#%d", th.ID, th.Name, th.op, th.obj))
				}
			}
			if alive > 0 {
				if s.threads[0].done {
					s.x.Leaked = alive
				} else {
					s.x.Deadlock = true
				}
			}
			s.abort()
			if exiting {
				return
			}
			panic(abortT{})
		}
		c := 0
		forced := false
		if s.forceThr != nil && s.x.Steps >= s.forceStep {
			for i, th := range enabled {
				if th == s.forceThr {
					c, forced = i, true
					s.forceThr = nil
				}
			}
		}
		if nopt > 1 && !forced {
			c = s.next(nopt, curEnabled, 't')
		}
		if c >= len(enabled) {
			tm := due[c-len(enabled)]
			for i, x := range s.timers {
				if x == tm {
					s.timers = append(s.timers[:i], s.timers[i+1:]...)
					break
				}
			}
			tm.fired = true
			s.mix("timer", tm.id, 0)
			if s.keepTrace {
				s.x.Trace = append(s.x.Trace, fmt.Sprintf("@%d timer#%d(%s) fires", s.now, tm.id, tm.Name))
			}
			s.lastKey = ""
			tm.fire()
			continue // re-evaluate: the running thread has not moved
		}
		nt := enabled[c]
		if s.keepTrace {
			s.x.Trace = append(s.x.Trace, fmt.Sprintf("T%d(%s):%s#%d", nt.ID, nt.Name, nt.op, nt.obj))
		}
		if nt == t {
			return
		}
		s.cur = nt
		nt.wake <- struct{}{}
		if exiting {
			return
		}
		<-t.wake
		if s.aborted {
			panic(abortT{})
		}
		return
	}
}

// Describe renders an execution for a replay file.
func (x *Exec) Describe() string {
	var b strings.Builder
	fmt.Fprintf(&b, "steps=%d threads=%d decisions=%d tracehash=%x", x.Steps, x.Threads, len(x.Decisions), x.TraceHash)
	if x.Deadlock {
		b.WriteString(" DEADLOCK")
	}
	if x.Leaked > 0 {
		fmt.Fprintf(&b, " LEAKED=%d", x.Leaked)
	}
	if x.StepCap {
		b.WriteString(" STEPCAP")
	}
	if x.PanicVal != "" {
		fmt.Fprintf(&b, " PANIC(%s in %s)", x.PanicVal, x.PanicFn)
	}
	return b.String()
}

// Point is a scheduling point inserted by access instrumentation (C18). Outside an execution
// (package initialisation, sequential reference runs) it does nothing.
func Point(kind string, site int) {
	s := S
	if s == nil {
		return
	}
	s.x.Points++
	Op(kind, site, nil)
}

// After is wrapped around a call whose receiver or arguments mention shared state: the point is
// passed after the call has returned and before its result is used.
func After[T any](site int, v T) T {
	Point("after-call", site)
	return v
}
