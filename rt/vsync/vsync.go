//go:build go1.21

// Package vsync replaces sync for code under the controlled scheduler.
package vsync

import "github.com/datastax/go-cassandra-native-protocol/verifrt/sched"

type Locker interface {
	Lock()
	Unlock()
}

type Mutex struct {
	held bool
	id   int
}

func (m *Mutex) oid() int {
	if m.id == 0 {
		m.id = sched.NewObj()
	}
	return m.id
}

func (m *Mutex) Lock() {
	sched.Op("lock", m.oid(), func() bool { return !m.held })
	m.held = true
}

func (m *Mutex) Unlock() {
	sched.Op("unlock", m.oid(), nil)
	if !m.held {
		panic("sync: unlock of unlocked mutex")
	}
	m.held = false
}

type RWMutex struct {
	w  bool
	r  int
	id int
}

func (m *RWMutex) oid() int {
	if m.id == 0 {
		m.id = sched.NewObj()
	}
	return m.id
}

func (m *RWMutex) Lock() {
	sched.Op("wlock", m.oid(), func() bool { return !m.w && m.r == 0 })
	m.w = true
}

func (m *RWMutex) Unlock() {
	sched.Op("wunlock", m.oid(), nil)
	if !m.w {
		panic("sync: Unlock of unlocked RWMutex")
	}
	m.w = false
}

func (m *RWMutex) RLock() {
	sched.Op("rlock", m.oid(), func() bool { return !m.w })
	m.r++
}

func (m *RWMutex) RUnlock() {
	sched.Op("runlock", m.oid(), nil)
	if m.r == 0 {
		panic("sync: RUnlock of unlocked RWMutex")
	}
	m.r--
}

// State exposes the lock state for state dumps.
func (m *RWMutex) State() (bool, int) { return m.w, m.r }

type WaitGroup struct {
	n  int
	id int
}

func (w *WaitGroup) oid() int {
	if w.id == 0 {
		w.id = sched.NewObj()
	}
	return w.id
}

func (w *WaitGroup) Add(d int) {
	sched.Op("wg.add", w.oid(), nil)
	w.n += d
	if w.n < 0 {
		panic("sync: negative WaitGroup counter")
	}
}
func (w *WaitGroup) Done() { w.Add(-1) }
func (w *WaitGroup) Wait() { sched.Op("wg.wait", w.oid(), func() bool { return w.n == 0 }) }

type Once struct {
	done bool
	m    Mutex
}

func (o *Once) Do(f func()) {
	o.m.Lock()
	defer o.m.Unlock()
	if !o.done {
		o.done = true
		f()
	}
}

// Pool is a deterministic sync.Pool: a LIFO free list (Get returns the most recently Put object),
// which is what makes the reuse of an object that is still referenced observable.
type Pool struct {
	New   func() interface{}
	items []interface{}
	id    int
}

func (p *Pool) oid() int {
	if p.id == 0 {
		p.id = sched.NewObj()
	}
	return p.id
}

func (p *Pool) Get() interface{} {
	if sched.Active() {
		sched.Op("pool.get", p.oid(), nil)
	}
	if n := len(p.items); n > 0 {
		x := p.items[n-1]
		p.items = p.items[:n-1]
		return x
	}
	if p.New != nil {
		return p.New()
	}
	return nil
}

func (p *Pool) Put(x interface{}) {
	if sched.Active() {
		sched.Op("pool.put", p.oid(), nil)
	}
	p.items = append(p.items, x)
	if sched.Active() {
		sched.Op("pool.put.done", p.oid(), nil) // the object is now available to others while the caller goes on
	}
}
