//go:build go1.21

// Package vnet replaces net for code under the controlled scheduler: an in-memory network of
// duplex byte pipes with TCP-style addresses, listeners, close/reset faults and read deadlines on
// the virtual clock.
package vnet

import (
	"context"
	"errors"
	"fmt"
	"io"
	"net"
	"os"
	"strconv"
	"time"

	"github.com/datastax/go-cassandra-native-protocol/verifrt/sched"
	"github.com/datastax/go-cassandra-native-protocol/verifrt/vtime"
)

type Conn = net.Conn
type Addr = net.Addr
type TCPAddr = net.TCPAddr
type Listener = net.Listener
type IP = net.IP
type Error = net.Error

var IPv4 = net.IPv4
var ParseIP = net.ParseIP

// CoalesceWrites merges consecutive writes of one thread to one connection into a single
// scheduling point (chunking of a byte stream is unobservable to a reader that loops until it has
// what it needs). Fault harnesses switch it off so that a close can land inside a frame.
var CoalesceWrites = true

// Capture, when non-nil, receives every successful Write (connection end, bytes).
var Capture func(e *End, p []byte)

var (
	listeners map[string]*listener
	nextPort  int
)

func init() {
	sched.OnReset(func() {
		listeners = map[string]*listener{}
		nextPort = 40000
		CoalesceWrites = true
		Capture = nil
	})
}

var errClosed = &netErr{"use of closed network connection", false}
var errReset = &netErr{"connection reset by peer", false}
var errTimeout = &netErr{"i/o timeout", true}

type netErr struct {
	msg     string
	timeout bool
}

func (e *netErr) Error() string   { return e.msg }
func (e *netErr) Timeout() bool   { return e.timeout }
func (e *netErr) Temporary() bool { return e.timeout }
func (e *netErr) Is(target error) bool {
	return e.timeout && target == os.ErrDeadlineExceeded
}

// End is one end of an in-memory connection.
type End struct {
	id       int
	Name     string
	inbox    []byte
	closed   bool // closed locally
	reset    bool // torn down by the network
	peer     *End
	local    *net.TCPAddr
	deadline int64
	hasDl    bool
	dlTimer  *sched.Timer
	Writes   int
	BytesOut int
}

// Pipe returns two connected in-memory connection ends (client side, server side).
func Pipe() (*End, *End) {
	nextPort++
	a := &End{id: sched.NewObj(), Name: "client", local: &net.TCPAddr{IP: net.IPv4(127, 0, 0, 1), Port: nextPort}}
	b := &End{id: sched.NewObj(), Name: "server", local: &net.TCPAddr{IP: net.IPv4(127, 0, 0, 1), Port: 9042}}
	a.peer, b.peer = b, a
	return a, b
}

func (e *End) readable() bool {
	return len(e.inbox) > 0 || e.closed || e.reset || e.peer.closed || (e.hasDl && sched.Now() >= e.deadline)
}

func (e *End) Read(p []byte) (int, error) {
	if len(p) == 0 {
		return 0, nil
	}
	if !e.readable() {
		sched.Op("net.read", e.id, e.readable)
	} else {
		sched.Touch()
	}
	if e.closed {
		return 0, errClosed
	}
	if e.reset {
		return 0, errReset
	}
	if len(e.inbox) == 0 {
		if e.peer.closed {
			return 0, io.EOF
		}
		return 0, errTimeout
	}
	n := copy(p, e.inbox)
	e.inbox = e.inbox[n:]
	return n, nil
}

func (e *End) Write(p []byte) (int, error) {
	if !(CoalesceWrites && sched.LastOpWas("net.write", e.id)) {
		sched.Op("net.write", e.id, nil)
	}
	if e.closed {
		return 0, errClosed
	}
	if e.reset {
		return 0, errReset
	}
	if e.peer.closed {
		return 0, &netErr{"broken pipe", false}
	}
	e.peer.inbox = append(e.peer.inbox, p...)
	e.Writes++
	e.BytesOut += len(p)
	if Capture != nil {
		Capture(e, p)
	}
	return len(p), nil
}

func (e *End) Close() error {
	sched.Op("net.close", e.id, nil)
	if e.closed {
		return errClosed
	}
	e.closed = true
	e.dlTimer.Stop()
	return nil
}

// Reset tears the connection down from "the network": both directions fail from now on.
func (e *End) Reset() {
	sched.Op("net.reset", e.id, nil)
	e.reset = true
	e.peer.reset = true
}

// IsClosed reports whether this end was closed locally.
func (e *End) IsClosed() bool { return e.closed }

func (e *End) LocalAddr() net.Addr  { return e.local }
func (e *End) RemoteAddr() net.Addr { return e.peer.local }

func (e *End) SetDeadline(t time.Time) error { return e.SetReadDeadline(t) }

func (e *End) SetReadDeadline(t time.Time) error {
	if e.closed {
		return errClosed
	}
	e.dlTimer.Stop()
	e.dlTimer = nil
	if t.IsZero() {
		e.hasDl = false
		return nil
	}
	e.hasDl = true
	e.deadline = vtime.ToVirtual(t)
	if e.deadline > sched.Now() {
		e.dlTimer = sched.AddTimer(e.deadline, "net.readdeadline", func() {})
	}
	return nil
}

func (e *End) SetWriteDeadline(t time.Time) error { return nil }

type listener struct {
	id     int
	addr   *net.TCPAddr
	queue  []*End
	closed bool
}

func parseAddr(address string) (*net.TCPAddr, error) {
	host, port, err := net.SplitHostPort(address)
	if err != nil {
		return nil, err
	}
	p, err := strconv.Atoi(port)
	if err != nil {
		return nil, err
	}
	ip := net.ParseIP(host)
	if ip == nil {
		ip = net.IPv4(127, 0, 0, 1)
	}
	return &net.TCPAddr{IP: ip, Port: p}, nil
}

// Listen creates an in-memory listener.
func Listen(network, address string) (Listener, error) {
	sched.Op("net.listen", 0, nil)
	a, err := parseAddr(address)
	if err != nil {
		return nil, err
	}
	key := a.String()
	if l, ok := listeners[key]; ok && !l.closed {
		return nil, fmt.Errorf("listen tcp %s: bind: address already in use", key)
	}
	l := &listener{id: sched.NewObj(), addr: a}
	listeners[key] = l
	return l, nil
}

func (l *listener) Accept() (net.Conn, error) {
	sched.Op("net.accept", l.id, func() bool { return len(l.queue) > 0 || l.closed })
	if l.closed {
		return nil, errClosed
	}
	c := l.queue[0]
	l.queue = l.queue[1:]
	return c, nil
}

func (l *listener) Close() error {
	sched.Op("net.lclose", l.id, nil)
	if l.closed {
		return errClosed
	}
	l.closed = true
	// connections still in the accept queue are reset, as the kernel would do
	for _, c := range l.queue {
		c.reset, c.peer.reset = true, true
	}
	l.queue = nil
	return nil
}

func (l *listener) Addr() net.Addr { return l.addr }

// Dialer mirrors net.Dialer.
type Dialer struct {
	Timeout time.Duration
}

func (d *Dialer) DialContext(ctx context.Context, network, address string) (Conn, error) {
	sched.Op("net.dial", 0, nil)
	if err := ctx.Err(); err != nil {
		return nil, err
	}
	a, err := parseAddr(address)
	if err != nil {
		return nil, err
	}
	l, ok := listeners[a.String()]
	if !ok || l.closed {
		return nil, errors.New("dial tcp " + a.String() + ": connect: connection refused")
	}
	c, s := Pipe()
	s.local = l.addr
	l.queue = append(l.queue, s)
	return c, nil
}

func (d *Dialer) Dial(network, address string) (Conn, error) {
	return d.DialContext(context.Background(), network, address)
}
