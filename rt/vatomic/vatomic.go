//go:build go1.21

// Package vatomic replaces sync/atomic for code under the controlled scheduler. Every operation is
// a scheduling point; memory is sequentially consistent.
package vatomic

import "github.com/datastax/go-cassandra-native-protocol/verifrt/sched"

func LoadInt32(p *int32) int32         { sched.Op("atomic.load", 0, nil); return *p }
func StoreInt32(p *int32, v int32)     { sched.Op("atomic.store", 0, nil); *p = v }
func AddInt32(p *int32, d int32) int32 { sched.Op("atomic.add", 0, nil); *p += d; return *p }
func CompareAndSwapInt32(p *int32, old, new int32) bool {
	sched.Op("atomic.cas", 0, nil)
	if *p == old {
		*p = new
		return true
	}
	return false
}
func LoadInt64(p *int64) int64         { sched.Op("atomic.load", 0, nil); return *p }
func StoreInt64(p *int64, v int64)     { sched.Op("atomic.store", 0, nil); *p = v }
func AddInt64(p *int64, d int64) int64 { sched.Op("atomic.add", 0, nil); *p += d; return *p }
func CompareAndSwapInt64(p *int64, old, new int64) bool {
	sched.Op("atomic.cas", 0, nil)
	if *p == old {
		*p = new
		return true
	}
	return false
}
