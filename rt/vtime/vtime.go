//go:build go1.21

// Package vtime replaces time for code under the controlled scheduler (virtual clock).
package vtime

import (
	"time"

	"github.com/datastax/go-cassandra-native-protocol/verifrt/sched"
	"github.com/datastax/go-cassandra-native-protocol/verifrt/vchan"
)

type Duration = time.Duration
type Time = time.Time
type Month = time.Month

const (
	Nanosecond  = time.Nanosecond
	Microsecond = time.Microsecond
	Millisecond = time.Millisecond
	Second      = time.Second
	Minute      = time.Minute
	Hour        = time.Hour
)

// Epoch is the wall-clock value of virtual time 0.
var Epoch = time.Unix(1600000000, 0)

func Now() Time { return Epoch.Add(time.Duration(sched.Now())) }

func Since(t Time) Duration { return Now().Sub(t) }

// ToVirtual converts a wall-clock value produced by Now() back to virtual nanoseconds.
func ToVirtual(t Time) int64 { return int64(t.Sub(Epoch)) }

func After(d Duration) <-chan Time {
	ch := make(chan Time, 1)
	dl := sched.Now() + int64(d)
	sched.AddTimer(dl, "time.After", func() { vchan.RawSend(ch, Epoch.Add(time.Duration(dl))) })
	return ch
}

func Sleep(d Duration) { sched.Sleep(int64(d)) }

func Unix(sec, nsec int64) Time { return time.Unix(sec, nsec) }

// Timer mirrors time.Timer on the virtual clock. A timer fires at quiescence, when the clock reaches
// its deadline (timers with equal deadlines fire in an order the scheduler chooses); Stop and Reset
// are scheduling points.
type Timer struct {
	C  <-chan Time
	ch chan Time
	f  func()
	tm *sched.Timer
}

func (t *Timer) arm(d Duration) {
	dl := sched.Now() + int64(d)
	if t.f != nil {
		f := t.f
		t.tm = sched.AddTimer(dl, "time.AfterFunc", func() { sched.GoNamed("time.AfterFunc", f) })
	} else {
		ch := t.ch
		t.tm = sched.AddTimer(dl, "time.Timer", func() {
			if len(ch) == 0 {
				vchan.RawSend(ch, Epoch.Add(time.Duration(dl)))
			}
		})
	}
}

// AfterFunc runs f in its own thread once d has elapsed on the virtual clock.
func AfterFunc(d Duration, f func()) *Timer {
	t := &Timer{f: f}
	t.arm(d)
	return t
}

// NewTimer sends the time on C once d has elapsed on the virtual clock.
func NewTimer(d Duration) *Timer {
	ch := make(chan Time, 1)
	t := &Timer{C: ch, ch: ch}
	t.arm(d)
	return t
}

// Stop prevents the timer from firing; it reports whether the timer was still pending.
func (t *Timer) Stop() bool {
	sched.Op("timer.stop", 0, nil)
	return t.tm.Stop()
}

// Reset re-arms the timer; it reports whether the timer was still pending.
func (t *Timer) Reset(d Duration) bool {
	sched.Op("timer.reset", 0, nil)
	active := t.tm.Stop()
	t.arm(d)
	return active
}
