//go:build go1.21

// Package vtime replaces time for code under the controlled scheduler (virtual clock).
package vtime

import (
	"time"

	"github.com/datastax/go-cassandra-native-protocol/verifrt/sched"
	"github.com/datastax/go-cassandra-native-protocol/verifrt/vchan"
)

type Duration = time.Duration
type Time = time.Time
type Month = time.Month

const (
	Nanosecond  = time.Nanosecond
	Microsecond = time.Microsecond
	Millisecond = time.Millisecond
	Second      = time.Second
	Minute      = time.Minute
	Hour        = time.Hour
)

// Epoch is the wall-clock value of virtual time 0.
var Epoch = time.Unix(1600000000, 0)

func Now() Time { return Epoch.Add(time.Duration(sched.Now())) }

func Since(t Time) Duration { return Now().Sub(t) }

// ToVirtual converts a wall-clock value produced by Now() back to virtual nanoseconds.
func ToVirtual(t Time) int64 { return int64(t.Sub(Epoch)) }

func After(d Duration) <-chan Time {
	ch := make(chan Time, 1)
	dl := sched.Now() + int64(d)
	sched.AddTimer(dl, "time.After", func() { vchan.RawSend(ch, Epoch.Add(time.Duration(dl))) })
	return ch
}

func Sleep(d Duration) { sched.Sleep(int64(d)) }

func Unix(sec, nsec int64) Time { return time.Unix(sec, nsec) }
