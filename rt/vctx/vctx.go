//go:build go1.21

// Package vctx replaces context for code under the controlled scheduler: cancellation closes the
// Done channel through vchan (so waiting on it is a modelled operation) and deadlines run on the
// virtual clock.
package vctx

import (
	"context"
	"time"

	"github.com/datastax/go-cassandra-native-protocol/verifrt/sched"
	"github.com/datastax/go-cassandra-native-protocol/verifrt/vchan"
)

type Context = context.Context
type CancelFunc = context.CancelFunc

var Canceled = context.Canceled
var DeadlineExceeded = context.DeadlineExceeded

func Background() Context { return context.Background() }
func TODO() Context       { return context.TODO() }

var epoch = time.Unix(1600000000, 0)

type cctx struct {
	parent   Context
	done     chan struct{}
	err      error
	children []*cctx
	deadline int64
	hasDl    bool
	timer    *sched.Timer
}

func (c *cctx) Deadline() (time.Time, bool) {
	if c.hasDl {
		return epoch.Add(time.Duration(c.deadline)), true
	}
	return c.parent.Deadline()
}
func (c *cctx) Done() <-chan struct{}             { return c.done }
func (c *cctx) Err() error                        { return c.err }
func (c *cctx) Value(key interface{}) interface{} { return c.parent.Value(key) }

func (c *cctx) cancel(err error) {
	if c.err != nil {
		return
	}
	c.err = err
	c.timer.Stop()
	vchan.RawClose(c.done)
	for _, ch := range c.children {
		ch.cancel(err)
	}
	c.children = nil
}

func newCtx(parent Context) *cctx {
	c := &cctx{parent: parent, done: make(chan struct{})}
	if p, ok := parent.(*cctx); ok {
		if p.err != nil {
			c.cancel(p.err)
		} else {
			p.children = append(p.children, c)
		}
	} else if parent.Done() != nil {
		panic("vctx: foreign cancellable parent context")
	}
	return c
}

func WithCancel(parent Context) (Context, CancelFunc) {
	c := newCtx(parent)
	return c, func() { sched.Op("ctx.cancel", vchan.ID(c.done), nil); c.cancel(Canceled) }
}

func WithTimeout(parent Context, d time.Duration) (Context, CancelFunc) {
	return WithDeadlineNs(parent, sched.Now()+int64(d))
}

func WithDeadline(parent Context, t time.Time) (Context, CancelFunc) {
	return WithDeadlineNs(parent, int64(t.Sub(epoch)))
}

func WithDeadlineNs(parent Context, dl int64) (Context, CancelFunc) {
	c := newCtx(parent)
	if p, ok := parent.(*cctx); ok {
		if pd, has := p.Deadline(); has && int64(pd.Sub(epoch)) < dl {
			dl = int64(pd.Sub(epoch))
		}
	}
	c.deadline, c.hasDl = dl, true
	if c.err == nil {
		if dl <= sched.Now() {
			c.cancel(DeadlineExceeded)
		} else {
			c.timer = sched.AddTimer(dl, "ctx.deadline", func() { c.cancel(DeadlineExceeded) })
		}
	}
	return c, func() { sched.Op("ctx.cancel", vchan.ID(c.done), nil); c.cancel(Canceled) }
}
