//go:build go1.21

// Package vchan: channel operations over *real* Go channels whose enabledness is decided by the
// controlled scheduler. A side table keyed by channel identity holds the closed flag and, for
// unbuffered channels, the pending rendezvous offer; the native operation that follows a
// scheduling point can therefore never block.
package vchan

import (
	"reflect"

	"github.com/datastax/go-cassandra-native-protocol/verifrt/sched"
)

type meta struct {
	id     int
	closed bool
	// rendezvous slot for unbuffered channels
	full  bool
	taken bool
	val   interface{} // *T
	keep  interface{} // keeps the channel alive so that its address is not reused within an execution
}

var table = map[uintptr]*meta{}

func init() { sched.OnReset(func() { table = map[uintptr]*meta{} }) }

func ptr(ch interface{}) uintptr {
	v := reflect.ValueOf(ch)
	if v.Kind() != reflect.Chan || v.IsNil() {
		return 0
	}
	return v.Pointer()
}

func get(ch interface{}) *meta {
	p := ptr(ch)
	if p == 0 {
		return nil
	}
	m := table[p]
	if m == nil {
		m = &meta{id: sched.NewObj(), keep: ch}
		table[p] = m
	}
	return m
}

// ID returns the allocation-order id of a channel (0 for nil).
func ID(ch interface{}) int {
	if m := get(ch); m != nil {
		return m.id
	}
	return 0
}

// IsClosed reports whether the channel has been closed in this execution.
func IsClosed(ch interface{}) bool {
	m := get(ch)
	return m != nil && m.closed
}

func recvReady[T any](ch <-chan T, m *meta) bool {
	if ch == nil {
		return false
	}
	if cap(ch) == 0 {
		return (m.full && !m.taken) || m.closed
	}
	return len(ch) > 0 || m.closed
}

func sendReady[T any](ch chan<- T, m *meta) bool {
	if ch == nil {
		return false
	}
	if cap(ch) == 0 {
		return !m.full || m.closed
	}
	return len(ch) < cap(ch) || m.closed
}

// Send is `ch <- v`.
func Send[T any](ch chan<- T, v T) {
	m := get(ch)
	sched.Op("send", ID(ch), func() bool { return sendReady(ch, m) })
	doSend(ch, m, v)
}

func doSend[T any](ch chan<- T, m *meta, v T) {
	if m.closed {
		panic("send on closed channel")
	}
	if cap(ch) == 0 {
		m.full, m.taken, m.val = true, false, &v
		sched.Op("send.rdv", m.id, func() bool { return m.taken || m.closed })
		if !m.taken {
			panic("send on closed channel")
		}
		m.full, m.taken, m.val = false, false, nil
		return
	}
	select {
	case ch <- v:
	default:
		panic("vchan: internal error: send not ready")
	}
}

// Recv is `<-ch`.
func Recv[T any](ch <-chan T) T { v, _ := Recv2(ch); return v }

// Recv2 is `v, ok := <-ch`.
func Recv2[T any](ch <-chan T) (T, bool) {
	m := get(ch)
	sched.Op("recv", ID(ch), func() bool { return recvReady(ch, m) })
	return doRecv(ch, m)
}

func doRecv[T any](ch <-chan T, m *meta) (T, bool) {
	if cap(ch) == 0 {
		if m.full && !m.taken {
			m.taken = true
			return *(m.val.(*T)), true
		}
		var zero T
		if !m.closed {
			panic("vchan: internal error: recv not ready (unbuffered)")
		}
		return zero, false
	}
	select {
	case v, ok := <-ch:
		return v, ok
	default:
		panic("vchan: internal error: recv not ready")
	}
}

// Close is `close(ch)`.
func Close[T any](ch chan T) {
	sched.Op("close", ID(ch), nil)
	RawClose(ch)
}

// RawClose closes without a scheduling point (timer callbacks, context cancellation).
func RawClose[T any](ch chan T) {
	if ch == nil {
		panic("close of nil channel")
	}
	m := get(ch)
	if m.closed {
		panic("close of closed channel")
	}
	m.closed = true
	close(ch)
}

// RawSend sends without a scheduling point if there is room; it reports whether it did.
func RawSend[T any](ch chan T, v T) bool {
	m := get(ch)
	if m.closed || len(ch) >= cap(ch) {
		return false
	}
	ch <- v
	return true
}

// Case describes one select case.
type Case struct {
	Ready func() bool
	id    int
}

func SendCase[T any](ch chan<- T) Case {
	if ch != nil && cap(ch) == 0 {
		panic("vchan: select send case on an unbuffered channel is not modelled")
	}
	m := get(ch)
	return Case{func() bool { return sendReady(ch, m) }, ID(ch)}
}

func RecvCase[T any](ch <-chan T) Case {
	m := get(ch)
	return Case{func() bool { return recvReady(ch, m) }, ID(ch)}
}

// Select returns the index of the chosen ready case, or -1 for default. The choice among several
// ready cases is a recorded decision (Go chooses pseudo-randomly).
func Select(hasDefault bool, cases ...Case) int {
	ready := func() bool {
		if hasDefault {
			return true
		}
		for _, c := range cases {
			if c.Ready() {
				return true
			}
		}
		return false
	}
	obj := 0
	if len(cases) > 0 {
		obj = cases[0].id
	}
	sched.Op("select", obj, ready)
	var rd []int
	for i, c := range cases {
		if c.Ready() {
			rd = append(rd, i)
		}
	}
	if len(rd) == 0 {
		return -1
	}
	return rd[sched.Choose(len(rd), 'c')]
}

// DoSend / DoRecv / DoRecv2 perform the operation of a case already chosen by Select.
func DoSend[T any](ch chan<- T, v T)       { doSend(ch, get(ch), v) }
func DoRecv[T any](ch <-chan T) T          { v, _ := doRecv(ch, get(ch)); return v }
func DoRecv2[T any](ch <-chan T) (T, bool) { return doRecv(ch, get(ch)) }

// MapOrder returns a permutation of n keys (already sorted by the caller): the iteration order of
// a `for range` over a map is owned by the scheduler. For n <= 3 every permutation is a choice.
func MapOrder(n int) []int {
	idx := make([]int, n)
	for i := range idx {
		idx[i] = i
	}
	if n < 2 || n > 3 {
		return idx
	}
	// Lehmer code: choose first among n, then among n-1, ...
	out := make([]int, 0, n)
	rest := idx
	for len(rest) > 1 {
		c := sched.Choose(len(rest), 'm')
		out = append(out, rest[c])
		rest = append(append([]int{}, rest[:c]...), rest[c+1:]...)
	}
	return append(out, rest[0])
}

// MapKeys returns the keys of m in an order owned by the scheduler (sorted, then permuted by a
// recorded choice when there are 2 or 3 of them).
func MapKeys[K comparable, V any](m map[K]V) []K {
	keys := make([]K, 0, len(m))
	for k := range m {
		keys = append(keys, k)
	}
	sortKeys(keys)
	ord := MapOrder(len(keys))
	out := make([]K, len(keys))
	for i, j := range ord {
		out[i] = keys[j]
	}
	return out
}
