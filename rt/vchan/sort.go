//go:build go1.21

package vchan

import (
	"fmt"
	"sort"
)

func sortKeys[K comparable](keys []K) {
	sort.Slice(keys, func(i, j int) bool {
		a, b := interface{}(keys[i]), interface{}(keys[j])
		switch x := a.(type) {
		case int16:
			return x < b.(int16)
		case int:
			return x < b.(int)
		case int32:
			return x < b.(int32)
		case int64:
			return x < b.(int64)
		case string:
			return x < b.(string)
		}
		return fmt.Sprint(a) < fmt.Sprint(b)
	})
}
