package cql

import (
	"math/big"
	"reflect"
)

var (
	tBigInt   = reflect.TypeOf(big.Int{})
	tBigFloat = reflect.TypeOf(big.Float{})
)

// Scribble changes, in place, every piece of mutable memory reachable from a decoded value: the
// caller owns what Decode hands out (an accumulator big.Int, a byte slice that is patched, ...), so
// whatever it does to it must not be observable by any later Encode or Decode. It returns the number
// of locations changed.
func Scribble(v reflect.Value) int { return scribble(v, 0) }

func scribble(v reflect.Value, depth int) int {
	if !v.IsValid() || depth > 10 {
		return 0
	}
	switch v.Kind() {
	case reflect.Ptr:
		if v.IsNil() {
			return 0
		}
		switch v.Type().Elem() {
		case tBigInt:
			x := v.Interface().(*big.Int)
			x.SetInt64(0x5A5A5A5A5A) // written in place when the value has a word of room: what an accumulator or a reused temporary does
			return 1
		case tBigFloat:
			v.Interface().(*big.Float).SetFloat64(12345.5)
			return 1
		}
		return scribble(v.Elem(), depth+1)
	case reflect.Interface:
		if v.IsNil() {
			return 0
		}
		return scribble(v.Elem(), depth+1)
	case reflect.Struct:
		if v.Type() == tBigInt || v.Type() == tBigFloat {
			if v.CanAddr() {
				return scribble(v.Addr(), depth+1)
			}
			return 0
		}
		n := 0
		for i := 0; i < v.NumField(); i++ {
			if v.Type().Field(i).PkgPath == "" { // exported
				n += scribble(v.Field(i), depth+1)
			}
		}
		return n
	case reflect.Slice, reflect.Array:
		if v.Kind() == reflect.Slice && v.IsNil() {
			return 0
		}
		n := 0
		if v.Type().Elem().Kind() == reflect.Uint8 {
			for i := 0; i < v.Len(); i++ {
				if e := v.Index(i); e.CanSet() {
					e.SetUint(e.Uint() ^ 0xFF)
					n++
				}
			}
			return n
		}
		for i := 0; i < v.Len(); i++ {
			n += scribble(v.Index(i), depth+1)
		}
		return n
	case reflect.Map:
		n := 0
		for _, k := range v.MapKeys() {
			n += scribble(v.MapIndex(k), depth+1) // reaches what the entries point to
		}
		return n
	}
	return 0
}
