package cql

import (
	"fmt"
	"math"
	"math/big"
	"net"
	"reflect"
	"time"

	"github.com/datastax/go-cassandra-native-protocol/datacodec"
	"github.com/datastax/go-cassandra-native-protocol/datatype"
	"github.com/datastax/go-cassandra-native-protocol/primitive"
)

// Rep is one Go representation accepted by a codec for a scalar CQL type.
type Rep struct {
	Name string
	T    reflect.Type
	// Make builds a Go value of type T holding the abstract value; ok=false if T cannot hold it.
	Make func(a AV) (reflect.Value, bool)
	// Read abstracts a Go value of type T.
	Read func(v reflect.Value) AV
	// Numeric marks representations whose conversion is range checked (C13).
	Numeric bool
	// DecodeOnlyPtr: representation only usable as a pointer (e.g. *big.Int).
	NoDecode bool
	NoEncode bool
}

var intTypes = []reflect.Type{
	reflect.TypeOf(int(0)), reflect.TypeOf(int8(0)), reflect.TypeOf(int16(0)), reflect.TypeOf(int32(0)), reflect.TypeOf(int64(0)),
	reflect.TypeOf(uint(0)), reflect.TypeOf(uint8(0)), reflect.TypeOf(uint16(0)), reflect.TypeOf(uint32(0)), reflect.TypeOf(uint64(0)),
}

func intRange(t reflect.Type) (lo, hi *big.Int) {
	bits := uint(t.Bits())
	switch t.Kind() {
	case reflect.Int, reflect.Int8, reflect.Int16, reflect.Int32, reflect.Int64:
		lo = new(big.Int).Neg(new(big.Int).Lsh(big.NewInt(1), bits-1))
		hi = new(big.Int).Sub(new(big.Int).Lsh(big.NewInt(1), bits-1), big.NewInt(1))
	default:
		lo = big.NewInt(0)
		hi = new(big.Int).Sub(new(big.Int).Lsh(big.NewInt(1), bits), big.NewInt(1))
	}
	return
}

func intRep(t reflect.Type) Rep {
	lo, hi := intRange(t)
	return Rep{Name: t.String(), T: t, Numeric: true,
		Make: func(a AV) (reflect.Value, bool) {
			if a.Kind != 'I' || a.I.Cmp(lo) < 0 || a.I.Cmp(hi) > 0 {
				return reflect.Value{}, false
			}
			v := reflect.New(t).Elem()
			if lo.Sign() < 0 {
				v.SetInt(a.I.Int64())
			} else {
				v.SetUint(a.I.Uint64())
			}
			return v, true
		},
		Read: func(v reflect.Value) AV {
			if lo.Sign() < 0 {
				return Int(v.Int())
			}
			return AV{Kind: 'I', I: new(big.Int).SetUint64(v.Uint())}
		}}
}

var tBigIntPtr = reflect.TypeOf((*big.Int)(nil))

func bigIntPtrRep() Rep {
	return Rep{Name: "*big.Int", T: tBigIntPtr, Numeric: true,
		Make: func(a AV) (reflect.Value, bool) {
			if a.Kind != 'I' {
				return reflect.Value{}, false
			}
			return reflect.ValueOf(new(big.Int).Set(a.I)), true
		},
		Read: func(v reflect.Value) AV {
			if v.IsNil() {
				return Null
			}
			return BigInt(v.Interface().(*big.Int))
		}}
}

func bigIntValRep() Rep {
	return Rep{Name: "big.Int", T: reflect.TypeOf(big.Int{}), Numeric: true,
		Make: func(a AV) (reflect.Value, bool) {
			if a.Kind != 'I' {
				return reflect.Value{}, false
			}
			return reflect.ValueOf(*new(big.Int).Set(a.I)), true
		},
		Read: func(v reflect.Value) AV { b := v.Interface().(big.Int); return BigInt(&b) }}
}

func decimalStringRep() Rep {
	return Rep{Name: "string(base10)", T: reflect.TypeOf(""), Numeric: true,
		Make: func(a AV) (reflect.Value, bool) {
			if a.Kind != 'I' {
				return reflect.Value{}, false
			}
			return reflect.ValueOf(a.I.String()), true
		},
		Read: func(v reflect.Value) AV {
			i, ok := new(big.Int).SetString(v.String(), 10)
			if !ok {
				return AV{Kind: 'S', B: []byte("unparsable:" + v.String())}
			}
			return BigInt(i)
		}}
}

func simpleRep(name string, t reflect.Type, kind byte, mk func(a AV) (interface{}, bool), rd func(x interface{}) AV) Rep {
	return Rep{Name: name, T: t,
		Make: func(a AV) (reflect.Value, bool) {
			if a.Kind != kind {
				return reflect.Value{}, false
			}
			x, ok := mk(a)
			if !ok {
				return reflect.Value{}, false
			}
			return reflect.ValueOf(x).Convert(t), true
		},
		Read: func(v reflect.Value) AV { return rd(v.Interface()) }}
}

var epoch = time.Unix(0, 0).UTC()

// Reps returns the accepted Go representations of a scalar CQL type, preferred first.
func Reps(dt datatype.DataType) []Rep {
	var out []Rep
	ints := func() {
		for _, t := range intTypes {
			out = append(out, intRep(t))
		}
	}
	switch dt.Code() {
	case primitive.DataTypeCodeBigint, primitive.DataTypeCodeCounter:
		out = append(out, intRep(reflect.TypeOf(int64(0))))
		ints()
		out = append(out, bigIntPtrRep(), decimalStringRep())
	case primitive.DataTypeCodeInt:
		out = append(out, intRep(reflect.TypeOf(int32(0))))
		ints()
		out = append(out, decimalStringRep())
	case primitive.DataTypeCodeSmallint:
		out = append(out, intRep(reflect.TypeOf(int16(0))))
		ints()
		out = append(out, decimalStringRep())
	case primitive.DataTypeCodeTinyint:
		out = append(out, intRep(reflect.TypeOf(int8(0))))
		ints()
		out = append(out, decimalStringRep())
	case primitive.DataTypeCodeVarint:
		out = append(out, bigIntPtrRep())
		ints()
		out = append(out, decimalStringRep())
	case primitive.DataTypeCodeBoolean:
		out = append(out, simpleRep("bool", reflect.TypeOf(false), 'T', func(a AV) (interface{}, bool) { return a.Bool, true }, func(x interface{}) AV { return Bool(x.(bool)) }))
	case primitive.DataTypeCodeBlob, primitive.DataTypeCodeCustom:
		out = append(out,
			simpleRep("[]byte", reflect.TypeOf([]byte(nil)), 'B', func(a AV) (interface{}, bool) { return append([]byte{}, a.B...), true }, func(x interface{}) AV {
				if x.([]byte) == nil {
					return Null
				}
				return Bytes(x.([]byte))
			}),
			simpleRep("string", reflect.TypeOf(""), 'B', func(a AV) (interface{}, bool) { return string(a.B), true }, func(x interface{}) AV { return Bytes([]byte(x.(string))) }))
	case primitive.DataTypeCodeAscii, primitive.DataTypeCodeVarchar:
		out = append(out,
			simpleRep("string", reflect.TypeOf(""), 'S', func(a AV) (interface{}, bool) { return string(a.B), true }, func(x interface{}) AV { return Text(x.(string)) }),
			simpleRep("[]byte", reflect.TypeOf([]byte(nil)), 'S', func(a AV) (interface{}, bool) { return append([]byte{}, a.B...), true }, func(x interface{}) AV {
				if x.([]byte) == nil {
					return Null
				}
				return Text(string(x.([]byte)))
			}),
			simpleRep("[]rune", reflect.TypeOf([]rune(nil)), 'S', func(a AV) (interface{}, bool) {
				r := []rune(string(a.B))
				if string(r) != string(a.B) {
					return nil, false // not valid UTF-8: runes cannot hold it
				}
				return r, true
			}, func(x interface{}) AV {
				if x.([]rune) == nil {
					return Null
				}
				return Text(string(x.([]rune)))
			}))
	case primitive.DataTypeCodeDouble:
		out = append(out,
			simpleRep("float64", reflect.TypeOf(float64(0)), 'F', func(a AV) (interface{}, bool) { return math.Float64frombits(a.Bits), true }, func(x interface{}) AV { return Double(x.(float64)) }),
			simpleRep("float32", reflect.TypeOf(float32(0)), 'F', func(a AV) (interface{}, bool) {
				f := math.Float64frombits(a.Bits)
				if math.IsNaN(f) || float64(float32(f)) != f {
					return nil, false
				}
				return float32(f), true
			}, func(x interface{}) AV { return Double(float64(x.(float32))) }))
	case primitive.DataTypeCodeFloat:
		out = append(out,
			simpleRep("float32", reflect.TypeOf(float32(0)), 'f', func(a AV) (interface{}, bool) { return math.Float32frombits(uint32(a.Bits)), true }, func(x interface{}) AV { return Float(x.(float32)) }),
			simpleRep("float64", reflect.TypeOf(float64(0)), 'f', func(a AV) (interface{}, bool) {
				f := math.Float32frombits(uint32(a.Bits))
				if f != f {
					return nil, false
				}
				return float64(f), true
			}, func(x interface{}) AV {
				f := x.(float64)
				if float64(float32(f)) != f {
					return AV{Kind: 'S', B: []byte(fmt.Sprintf("float64 %v not representable as float32", f))}
				}
				return Float(float32(f))
			}))
	case primitive.DataTypeCodeDecimal:
		out = append(out, simpleRep("CqlDecimal", reflect.TypeOf(datacodec.CqlDecimal{}), 'D', func(a AV) (interface{}, bool) {
			return datacodec.CqlDecimal{Unscaled: new(big.Int).Set(a.I), Scale: a.Scale}, true
		}, func(x interface{}) AV {
			d := x.(datacodec.CqlDecimal)
			if d.Unscaled == nil {
				return AV{Kind: 'D', I: big.NewInt(0), Scale: d.Scale}
			}
			return AV{Kind: 'D', I: new(big.Int).Set(d.Unscaled), Scale: d.Scale}
		}))
	case primitive.DataTypeCodeDuration:
		out = append(out, simpleRep("CqlDuration", reflect.TypeOf(datacodec.CqlDuration{}), 'U', func(a AV) (interface{}, bool) {
			if a.Mo != int64(int32(a.Mo)) || a.Da != int64(int32(a.Da)) {
				return nil, false
			}
			return datacodec.CqlDuration{Months: int32(a.Mo), Days: int32(a.Da), Nanos: time.Duration(a.Ns)}, true
		}, func(x interface{}) AV {
			d := x.(datacodec.CqlDuration)
			return AV{Kind: 'U', Mo: int64(d.Months), Da: int64(d.Days), Ns: int64(d.Nanos)}
		}))
	case primitive.DataTypeCodeInet:
		out = append(out,
			simpleRep("net.IP", reflect.TypeOf(net.IP(nil)), 'N', func(a AV) (interface{}, bool) { return net.IP(append([]byte{}, a.B...)), true }, func(x interface{}) AV {
				if x.(net.IP) == nil {
					return Null
				}
				return AV{Kind: 'N', B: x.(net.IP)}
			}),
			simpleRep("[]byte", reflect.TypeOf([]byte(nil)), 'N', func(a AV) (interface{}, bool) { return append([]byte{}, a.B...), true }, func(x interface{}) AV {
				if x.([]byte) == nil {
					return Null
				}
				return AV{Kind: 'N', B: x.([]byte)}
			}),
			simpleRep("string", reflect.TypeOf(""), 'N', func(a AV) (interface{}, bool) { return net.IP(a.B).String(), true }, func(x interface{}) AV {
				ip := net.ParseIP(x.(string))
				if v4 := ip.To4(); v4 != nil {
					return AV{Kind: 'N', B: v4}
				}
				return AV{Kind: 'N', B: ip}
			}))
	case primitive.DataTypeCodeUuid, primitive.DataTypeCodeTimeuuid:
		out = append(out,
			simpleRep("primitive.UUID", reflect.TypeOf(primitive.UUID{}), 'X', func(a AV) (interface{}, bool) {
				var u primitive.UUID
				copy(u[:], a.B)
				return u, true
			}, func(x interface{}) AV { u := x.(primitive.UUID); return AV{Kind: 'X', B: u[:]} }),
			simpleRep("[16]byte", reflect.TypeOf([16]byte{}), 'X', func(a AV) (interface{}, bool) {
				var u [16]byte
				copy(u[:], a.B)
				return u, true
			}, func(x interface{}) AV { u := x.([16]byte); return AV{Kind: 'X', B: u[:]} }),
			simpleRep("[]byte", reflect.TypeOf([]byte(nil)), 'X', func(a AV) (interface{}, bool) { return append([]byte{}, a.B...), true }, func(x interface{}) AV {
				if x.([]byte) == nil {
					return Null
				}
				return AV{Kind: 'X', B: x.([]byte)}
			}),
			simpleRep("string", reflect.TypeOf(""), 'X', func(a AV) (interface{}, bool) {
				var u primitive.UUID
				copy(u[:], a.B)
				return u.String(), true
			}, func(x interface{}) AV {
				u, err := primitive.ParseUuid(x.(string))
				if err != nil {
					return AV{Kind: 'S', B: []byte("unparsable uuid " + x.(string))}
				}
				return AV{Kind: 'X', B: u[:]}
			}))
	case primitive.DataTypeCodeDate:
		// time.Time: start of day UTC; ints: days since the epoch
		out = append(out, simpleRep("time.Time", reflect.TypeOf(time.Time{}), 'I', func(a AV) (interface{}, bool) {
			if !a.I.IsInt64() || a.I.Int64() > 2932896 || a.I.Int64() < -719162 { // year 1..9999, what time.Time formats and the wire can both carry
				return nil, false
			}
			return epoch.AddDate(0, 0, int(a.I.Int64())), true
		}, func(x interface{}) AV {
			t := x.(time.Time)
			d := t.Sub(epoch)
			days := int64(math.Floor(d.Hours() / 24))
			if !epoch.AddDate(0, 0, int(days)).Equal(t) {
				return AV{Kind: 'S', B: []byte("time.Time " + t.String() + " is not a whole day")}
			}
			return Int(days)
		}))
		ints()
	case primitive.DataTypeCodeTime:
		out = append(out, simpleRep("time.Duration", reflect.TypeOf(time.Duration(0)), 'I', func(a AV) (interface{}, bool) {
			if !a.I.IsInt64() {
				return nil, false
			}
			return time.Duration(a.I.Int64()), true
		}, func(x interface{}) AV { return Int(int64(x.(time.Duration))) }))
		ints()
	case primitive.DataTypeCodeTimestamp:
		out = append(out, simpleRep("time.Time", reflect.TypeOf(time.Time{}), 'I', func(a AV) (interface{}, bool) {
			if !a.I.IsInt64() {
				return nil, false
			}
			ms := a.I.Int64()
			if ms > 253402300799999 || ms < -62135596800000 { // years 1..9999
				return nil, false
			}
			return time.Unix(ms/1000, (ms%1000)*1e6).UTC(), true
		}, func(x interface{}) AV {
			t := x.(time.Time)
			if t.Nanosecond()%1e6 != 0 {
				return AV{Kind: 'S', B: []byte("time.Time with sub-millisecond part")}
			}
			return Int(t.Unix()*1000 + int64(t.Nanosecond()/1e6))
		}))
		ints()
	}
	return out
}

// Domain returns the value domain of a scalar CQL type: boundary values, simplest first.
// wide=true adds the values beyond the type's own range (used by C13 to provoke range errors).
func Domain(dt datatype.DataType, wide bool) []AV {
	var out []AV
	pow := func(k uint) *big.Int { return new(big.Int).Lsh(big.NewInt(1), k) }
	intDomain := func(ks []uint) {
		seen := map[string]bool{}
		add := func(i *big.Int) {
			if !seen[i.String()] {
				seen[i.String()] = true
				out = append(out, BigInt(i))
			}
		}
		add(big.NewInt(0))
		add(big.NewInt(1))
		add(big.NewInt(-1))
		for _, k := range ks {
			p := pow(k)
			for _, d := range []int64{-1, 0, 1} {
				x := new(big.Int).Add(p, big.NewInt(d))
				add(x)
				add(new(big.Int).Neg(x))
			}
		}
	}
	allK := []uint{7, 8, 15, 16, 31, 32, 63, 64}
	switch dt.Code() {
	case primitive.DataTypeCodeTime:
		// nanoseconds since midnight: 0 .. 86399999999999
		for _, n := range []int64{0, 1, 127, 128, 255, 256, 32767, 32768, 65535, 65536, 1<<31 - 1, 1 << 31, 1 << 32, 1e9, 3600e9, 86399999999999} {
			out = append(out, Int(n))
		}
		if wide {
			out = append(out, Int(-1), Int(86400000000000), Int(math.MaxInt64), Int(math.MinInt64))
			intDomain([]uint{64, 70})
		}
	case primitive.DataTypeCodeTinyint, primitive.DataTypeCodeSmallint, primitive.DataTypeCodeInt, primitive.DataTypeCodeBigint, primitive.DataTypeCodeCounter, primitive.DataTypeCodeDate, primitive.DataTypeCodeTimestamp:
		intDomain(allK)
		if wide {
			intDomain([]uint{70})
		}
	case primitive.DataTypeCodeVarint:
		intDomain(append(allK, 23, 24, 39, 40, 70, 127, 128))
	case primitive.DataTypeCodeBoolean:
		out = []AV{Bool(false), Bool(true)}
	case primitive.DataTypeCodeAscii:
		for _, s := range []string{"", "a", "abc", string(make([]byte, 300))} {
			out = append(out, Text(s))
		}
	case primitive.DataTypeCodeVarchar:
		for _, s := range []string{"", "a", "héllo ✓", string(make([]byte, 300)), string(repeat('x', 70000))} {
			out = append(out, Text(s))
		}
	case primitive.DataTypeCodeBlob, primitive.DataTypeCodeCustom:
		for _, b := range [][]byte{{}, {0}, {0xff, 0, 1}, repeat(0xab, 300)} {
			out = append(out, Bytes(b))
		}
	case primitive.DataTypeCodeDouble:
		for _, f := range []float64{0, 1, -1, math.Copysign(0, -1), 0.1, math.MaxFloat64, math.SmallestNonzeroFloat64, math.Inf(1), math.Inf(-1), math.NaN(), 1 << 53, 1<<53 + 1, math.MaxFloat32, 16777217} {
			out = append(out, Double(f))
		}
	case primitive.DataTypeCodeFloat:
		for _, f := range []float32{0, 1, -1, float32(math.Copysign(0, -1)), 0.1, math.MaxFloat32, math.SmallestNonzeroFloat32, float32(math.Inf(1)), float32(math.Inf(-1)), float32(math.NaN()), 16777216} {
			out = append(out, Float(f))
		}
	case primitive.DataTypeCodeDecimal:
		intDomain([]uint{7, 8, 15, 16, 63, 64, 70})
		ints := out
		out = nil
		for i, a := range ints {
			for _, sc := range []int32{0, 1, -1, math.MaxInt32, math.MinInt32} {
				if i > 6 && sc != 0 && sc != -1 {
					continue
				}
				out = append(out, AV{Kind: 'D', I: a.I, Scale: sc})
			}
		}
	case primitive.DataTypeCodeDuration:
		vals := []int64{0, 1, -1, math.MaxInt32, math.MinInt32}
		for _, m := range vals {
			for _, d := range vals {
				for _, n := range []int64{0, 1, -1, math.MaxInt64, math.MinInt64, 1 << 31} {
					out = append(out, AV{Kind: 'U', Mo: m, Da: d, Ns: n})
				}
			}
		}
		// every size class of the vint encoding: zig-zag values of exactly 7n-1, 7n and 7n+1
		// significant bits (n = 1..9), positive and negative, one component at a time
		for bits := uint(1); bits <= 63; bits++ {
			if r := bits % 7; r != 6 && r != 0 && r != 1 {
				continue
			}
			// zig-zag of v >= 0 is 2v: v = 2^(bits-2) has `bits-1+1` ... pick by magnitude directly
			for _, v := range []int64{1 << (bits - 1), -(1 << (bits - 1)), (1 << (bits - 1)) - 1, -(1 << (bits - 1)) - 1} {
				out = append(out, AV{Kind: 'U', Ns: v})
				if v >= math.MinInt32 && v <= math.MaxInt32 {
					out = append(out, AV{Kind: 'U', Mo: v}, AV{Kind: 'U', Da: v})
				}
			}
		}
	case primitive.DataTypeCodeInet:
		out = []AV{{Kind: 'N', B: []byte{127, 0, 0, 1}}, {Kind: 'N', B: []byte{0, 0, 0, 0}}, {Kind: 'N', B: net.ParseIP("2001:db8::1")}, {Kind: 'N', B: net.ParseIP("::")}}
	case primitive.DataTypeCodeUuid, primitive.DataTypeCodeTimeuuid:
		out = []AV{{Kind: 'X', B: make([]byte, 16)}, {Kind: 'X', B: []byte{0x12, 0x34, 0x56, 0x78, 0x9a, 0xbc, 0x1d, 0xef, 0x80, 1, 2, 3, 4, 5, 6, 7}}, {Kind: 'X', B: repeat(0xff, 16)}}
	}
	return out
}

func repeat(b byte, n int) []byte {
	o := make([]byte, n)
	for i := range o {
		o[i] = b
	}
	return o
}

// CqlRange reports whether an integer is expressible in an integer-like CQL type.
func CqlRange(dt datatype.DataType, i *big.Int) bool {
	switch dt.Code() {
	case primitive.DataTypeCodeTinyint:
		return fits(i, 8)
	case primitive.DataTypeCodeSmallint:
		return fits(i, 16)
	case primitive.DataTypeCodeInt, primitive.DataTypeCodeDate:
		return fits(i, 32)
	case primitive.DataTypeCodeBigint, primitive.DataTypeCodeCounter, primitive.DataTypeCodeTimestamp, primitive.DataTypeCodeTime:
		return fits(i, 64)
	}
	return true
}
