package cql

import (
	"runtime"
	"strings"
)

func panicSite() string {
	pcs := make([]uintptr, 64)
	n := runtime.Callers(3, pcs)
	frames := runtime.CallersFrames(pcs[:n])
	seen := false
	for {
		fr, more := frames.Next()
		fn := fr.Function
		if strings.HasPrefix(fn, "runtime.gopanic") || strings.HasPrefix(fn, "runtime.panic") || strings.HasPrefix(fn, "runtime.goPanic") || fn == "runtime.sigpanic" {
			seen = true
		} else if seen && strings.Contains(fn, "go-cassandra-native-protocol") {
			if i := strings.LastIndex(fn, "/"); i >= 0 {
				fn = fn[i+1:]
			}
			return fn
		}
		if !more {
			return "?"
		}
	}
}
