// Package cql holds the abstract CQL value model, the reference serializer written from section 6
// of native_protocol_v5.spec (plus the v2 collection format), and the grammar of Go representations
// accepted by the datacodec package (doc.go table). Used by C11-C14 and C04.
package cql

import (
	"encoding/binary"
	"fmt"
	"math"
	"math/big"
	"strings"

	"github.com/datastax/go-cassandra-native-protocol/datatype"
	"github.com/datastax/go-cassandra-native-protocol/primitive"
)

// AV is an abstract CQL value, independent of any Go representation.
type AV struct {
	Kind  byte     // 0 null, 'I' integer, 'S' text, 'B' bytes, 'T' bool, 'F' double, 'f' float, 'D' decimal, 'U' duration, 'N' inet, 'X' uuid, 'L' list/set, 'M' map, 'R' tuple/udt
	I     *big.Int // integer / unscaled decimal
	B     []byte   // text, bytes, inet, uuid
	Bool  bool
	Bits  uint64 // IEEE bits of float / double
	Scale int32
	Mo    int64 // duration months, days, nanos (64-bit so that out-of-range wire values are representable)
	Da    int64
	Ns    int64
	Elems []AV // list/set/tuple/udt elements, map values
	Keys  []AV // map keys
}

var Null = AV{}

func (a AV) IsNull() bool { return a.Kind == 0 }

func Int(i int64) AV       { return AV{Kind: 'I', I: big.NewInt(i)} }
func BigInt(i *big.Int) AV { return AV{Kind: 'I', I: new(big.Int).Set(i)} }
func Text(s string) AV     { return AV{Kind: 'S', B: []byte(s)} }
func Bytes(b []byte) AV    { return AV{Kind: 'B', B: append([]byte{}, b...)} }
func Bool(b bool) AV       { return AV{Kind: 'T', Bool: b} }
func Double(f float64) AV  { return AV{Kind: 'F', Bits: math.Float64bits(f)} }
func Float(f float32) AV   { return AV{Kind: 'f', Bits: uint64(math.Float32bits(f))} }

func (a AV) String() string {
	switch a.Kind {
	case 0:
		return "NULL"
	case 'I':
		return "I" + a.I.String()
	case 'S':
		return fmt.Sprintf("S%q", clip(string(a.B)))
	case 'B':
		return fmt.Sprintf("B%x", clipb(a.B))
	case 'N':
		return fmt.Sprintf("N%x", a.B)
	case 'X':
		return fmt.Sprintf("X%x", a.B)
	case 'T':
		return fmt.Sprintf("T%v", a.Bool)
	case 'F', 'f':
		return fmt.Sprintf("%c%016x", a.Kind, a.Bits)
	case 'D':
		return fmt.Sprintf("D%se-%d", a.I.String(), a.Scale)
	case 'U':
		return fmt.Sprintf("U%dmo%dd%dns", a.Mo, a.Da, a.Ns)
	case 'L', 'R':
		var s []string
		for _, e := range a.Elems {
			s = append(s, e.String())
		}
		return string(a.Kind) + "[" + strings.Join(s, ",") + "]"
	case 'M':
		var s []string
		for i := range a.Elems {
			s = append(s, a.Keys[i].String()+":"+a.Elems[i].String())
		}
		return "M{" + strings.Join(s, ",") + "}"
	}
	return "?"
}

func clip(s string) string {
	if len(s) > 40 {
		return fmt.Sprintf("%s…(%d)", s[:40], len(s))
	}
	return s
}
func clipb(b []byte) []byte {
	if len(b) > 24 {
		return b[:24]
	}
	return b
}

// Key is a canonical form in which map entries are sorted (map order is not part of the value)
// and list order is kept.
func (a AV) Key() string {
	if a.Kind != 'M' && a.Kind != 'L' && a.Kind != 'R' {
		if a.Kind == 'S' || a.Kind == 'B' {
			return fmt.Sprintf("%c%x", a.Kind, a.B)
		}
		return a.String()
	}
	if a.Kind == 'M' {
		var s []string
		for i := range a.Elems {
			s = append(s, a.Keys[i].Key()+":"+a.Elems[i].Key())
		}
		sortStrings(s)
		return "M{" + strings.Join(s, ",") + "}"
	}
	var s []string
	for _, e := range a.Elems {
		s = append(s, e.Key())
	}
	return string(a.Kind) + "[" + strings.Join(s, ",") + "]"
}

func sortStrings(s []string) {
	for i := 1; i < len(s); i++ {
		for j := i; j > 0 && s[j] < s[j-1]; j-- {
			s[j], s[j-1] = s[j-1], s[j]
		}
	}
}

// ---------------------------------------------------------------------------------------------
// reference serializer

func be(n int, v uint64) []byte {
	b := make([]byte, 8)
	binary.BigEndian.PutUint64(b, v)
	return b[8-n:]
}

// Varint is the minimal two's-complement big-endian encoding of spec section 6.17 (0 -> 0x00).
func Varint(i *big.Int) []byte {
	if i.Sign() == 0 {
		return []byte{0}
	}
	if i.Sign() > 0 {
		b := i.Bytes()
		if b[0]&0x80 != 0 {
			b = append([]byte{0}, b...)
		}
		return b
	}
	// negative: find the smallest n such that -2^(8n-1) <= i
	n := 1
	for {
		min := new(big.Int).Lsh(big.NewInt(1), uint(8*n-1))
		min.Neg(min)
		if i.Cmp(min) >= 0 {
			break
		}
		n++
	}
	mod := new(big.Int).Lsh(big.NewInt(1), uint(8*n))
	v := new(big.Int).Add(mod, i)
	b := v.Bytes()
	for len(b) < n {
		b = append([]byte{0}, b...)
	}
	return b
}

// ParseVarint is the inverse of Varint for arbitrary (also non-minimal) two's-complement input.
func ParseVarint(b []byte) *big.Int {
	v := new(big.Int).SetBytes(b)
	if len(b) > 0 && b[0]&0x80 != 0 {
		v.Sub(v, new(big.Int).Lsh(big.NewInt(1), uint(8*len(b))))
	}
	return v
}

// Vint encodes an unsigned vint (spec section 3: [unsigned vint]): the number of leading 1 bits of
// the first byte is the number of extra bytes.
func UVint(v uint64) []byte {
	// number of significant bits
	bits := 0
	for x := v; x != 0; x >>= 1 {
		bits++
	}
	extra := 0
	for extra < 8 && bits > 7*(extra+1) {
		extra++
	}
	if extra == 8 {
		out := []byte{0xff}
		return append(out, be(8, v)...)
	}
	out := be(extra+1, v)
	out[0] |= byte(0xff << uint(8-extra))
	return out
}

func zigzag(v int64) uint64 { return uint64((v << 1) ^ (v >> 63)) }

// Serialize renders a value of CQL type dt; ok is false if the value cannot be expressed in that
// type/version (e.g. a null element in a v2 collection).
func Serialize(dt datatype.DataType, a AV, v primitive.ProtocolVersion) (out []byte, ok bool) {
	if a.IsNull() {
		return nil, true
	}
	switch dt.Code() {
	case primitive.DataTypeCodeAscii, primitive.DataTypeCodeVarchar, primitive.DataTypeCodeBlob, primitive.DataTypeCodeCustom, primitive.DataTypeCodeInet, primitive.DataTypeCodeUuid, primitive.DataTypeCodeTimeuuid:
		return append([]byte{}, a.B...), true
	case primitive.DataTypeCodeBigint, primitive.DataTypeCodeCounter, primitive.DataTypeCodeTime, primitive.DataTypeCodeTimestamp:
		if !a.I.IsInt64() {
			return nil, false
		}
		return be(8, uint64(a.I.Int64())), true
	case primitive.DataTypeCodeInt:
		if !fits(a.I, 32) {
			return nil, false
		}
		return be(4, uint64(a.I.Int64())), true
	case primitive.DataTypeCodeSmallint:
		if !fits(a.I, 16) {
			return nil, false
		}
		return be(2, uint64(a.I.Int64())), true
	case primitive.DataTypeCodeTinyint:
		if !fits(a.I, 8) {
			return nil, false
		}
		return be(1, uint64(a.I.Int64())), true
	case primitive.DataTypeCodeDate:
		// days since the epoch, centred on 2^31
		if !fits(a.I, 32) {
			return nil, false
		}
		return be(4, uint64(a.I.Int64()+(1<<31))), true
	case primitive.DataTypeCodeBoolean:
		if a.Bool {
			return []byte{1}, true
		}
		return []byte{0}, true
	case primitive.DataTypeCodeVarint:
		return Varint(a.I), true
	case primitive.DataTypeCodeDecimal:
		return append(be(4, uint64(uint32(a.Scale))), Varint(a.I)...), true
	case primitive.DataTypeCodeDouble:
		return be(8, a.Bits), true
	case primitive.DataTypeCodeFloat:
		return be(4, a.Bits), true
	case primitive.DataTypeCodeDuration:
		return append(append(UVint(zigzag(a.Mo)), UVint(zigzag(a.Da))...), UVint(zigzag(a.Ns))...), true
	case primitive.DataTypeCodeList, primitive.DataTypeCodeSet:
		var et datatype.DataType
		if l, isList := dt.(*datatype.List); isList {
			et = l.ElementType
		} else {
			et = dt.(*datatype.Set).ElementType
		}
		out = size(len(a.Elems), v)
		for _, e := range a.Elems {
			b, ok := elem(et, e, v)
			if !ok {
				return nil, false
			}
			out = append(out, b...)
		}
		return out, true
	case primitive.DataTypeCodeMap:
		m := dt.(*datatype.Map)
		out = size(len(a.Elems), v)
		for i := range a.Elems {
			kb, ok1 := elem(m.KeyType, a.Keys[i], v)
			vb, ok2 := elem(m.ValueType, a.Elems[i], v)
			if !ok1 || !ok2 {
				return nil, false
			}
			out = append(append(out, kb...), vb...)
		}
		return out, true
	case primitive.DataTypeCodeTuple, primitive.DataTypeCodeUdt:
		var fts []datatype.DataType
		if t, isTuple := dt.(*datatype.Tuple); isTuple {
			fts = t.FieldTypes
		} else {
			fts = dt.(*datatype.UserDefined).FieldTypes
		}
		for i, e := range a.Elems {
			b, ok := Serialize(fts[i], e, v)
			if !ok {
				return nil, false
			}
			if e.IsNull() {
				out = append(out, be(4, uint64(0xffffffff))...)
			} else {
				out = append(append(out, be(4, uint64(len(b)))...), b...)
			}
		}
		if out == nil {
			out = []byte{}
		}
		return out, true
	}
	return nil, false
}

func fits(i *big.Int, bits uint) bool {
	lo := new(big.Int).Neg(new(big.Int).Lsh(big.NewInt(1), bits-1))
	hi := new(big.Int).Sub(new(big.Int).Lsh(big.NewInt(1), bits-1), big.NewInt(1))
	return i.Cmp(lo) >= 0 && i.Cmp(hi) <= 0
}

func size(n int, v primitive.ProtocolVersion) []byte {
	if v == primitive.ProtocolVersion2 {
		return be(2, uint64(n))
	}
	return be(4, uint64(n))
}

// elem is a collection element: [bytes] with a 4-byte length from v3, 2-byte in v2; null is
// length -1 and cannot be expressed in v2.
func elem(dt datatype.DataType, a AV, v primitive.ProtocolVersion) ([]byte, bool) {
	b, ok := Serialize(dt, a, v)
	if !ok {
		return nil, false
	}
	if v == primitive.ProtocolVersion2 {
		if a.IsNull() || len(b) > 65535 {
			return nil, false
		}
		return append(be(2, uint64(len(b))), b...), true
	}
	if a.IsNull() {
		return be(4, 0xffffffff), true
	}
	return append(be(4, uint64(len(b))), b...), true
}
