package cql

import (
	"fmt"
	"reflect"
	"strings"

	"github.com/datastax/go-cassandra-native-protocol/datatype"
	"github.com/datastax/go-cassandra-native-protocol/primitive"
)

// Mode selects how composite Go types are built.
type Mode int

const (
	Plain Mode = iota // []T, map[K]V, struct{...} with the preferred scalar types
	Ptr               // pointer elements (*T), so that null elements are expressible
	Iface             // []interface{} / map[interface{}]interface{} holding the canonical values
	Untagged          // as Plain, but a UDT is a struct WITHOUT tags whose fields are declared in reverse order and matched by (case-insensitive) name
	Seq               // as Iface, but a UDT is a []interface{} (fields by position), like a tuple
)

func (m Mode) String() string { return [...]string{"plain", "ptr", "iface", "untagged", "seq"}[m] }

// Modes lists every composite shape, simplest first.
func Modes() []Mode { return []Mode{Plain, Ptr, Iface, Untagged, Seq} }

// Nullable reports whether the shape can hold a NULL element.
func (m Mode) Nullable() bool { return m == Ptr || m == Iface || m == Seq }

// udtFieldName is the Go name of the untagged struct field that matches UDT field n.
func udtFieldName(n string) string { return strings.ToUpper(n[:1]) + n[1:] }

// structField locates the field of struct type t that holds UDT field names[i] (tuples: position i).
func structField(t reflect.Type, names []string, i int) int {
	if names == nil {
		return i
	}
	for k := 0; k < t.NumField(); k++ {
		f := t.Field(k)
		if f.Tag.Get("cassandra") == names[i] || (f.Tag == "" && strings.EqualFold(f.Name, names[i])) {
			return k
		}
	}
	return -1
}

var tIface = reflect.TypeOf((*interface{})(nil)).Elem()

// hashable reports whether a Go type can be a map key.
func hashable(t reflect.Type) bool {
	switch t.Kind() {
	case reflect.Slice, reflect.Map, reflect.Func:
		return false
	case reflect.Array:
		return hashable(t.Elem())
	case reflect.Struct:
		for i := 0; i < t.NumField(); i++ {
			if !hashable(t.Field(i).Type) {
				return false
			}
		}
	}
	return true
}

// GoType returns the Go type used for dt in the given mode; ok=false if none exists (e.g. a map
// keyed by a CQL type whose Go form is not hashable).
func GoType(dt datatype.DataType, m Mode) (reflect.Type, bool) {
	elem := func(e datatype.DataType) (reflect.Type, bool) {
		t, ok := GoType(e, m)
		if !ok {
			return nil, false
		}
		switch m {
		case Ptr:
			if t.Kind() != reflect.Ptr && t.Kind() != reflect.Slice && t.Kind() != reflect.Map {
				return reflect.PtrTo(t), true
			}
		case Iface, Seq:
			return tIface, true
		}
		return t, true
	}
	switch x := dt.(type) {
	case *datatype.List:
		t, ok := elem(x.ElementType)
		if !ok {
			return nil, false
		}
		return reflect.SliceOf(t), true
	case *datatype.Set:
		t, ok := elem(x.ElementType)
		if !ok {
			return nil, false
		}
		return reflect.SliceOf(t), true
	case *datatype.Map:
		k, ok1 := elem(x.KeyType)
		v, ok2 := elem(x.ValueType)
		if !ok1 || !ok2 {
			return nil, false
		}
		if m == Ptr {
			// pointer keys are legal Go but make lookups meaningless; keep value keys
			k, _ = GoType(x.KeyType, Plain)
		}
		if k != tIface && !hashable(k) {
			return nil, false
		}
		return reflect.MapOf(k, v), true
	case *datatype.Tuple:
		if len(x.FieldTypes) == 0 {
			return nil, false // CQL has no zero-field tuples; their encoding would be indistinguishable from NULL
		}
		if m == Iface || m == Seq {
			return reflect.SliceOf(tIface), true
		}
		var fs []reflect.StructField
		for i, ft := range x.FieldTypes {
			t, ok := elem(ft)
			if !ok {
				return nil, false
			}
			fs = append(fs, reflect.StructField{Name: fmt.Sprintf("F%d", i), Type: t})
		}
		return reflect.StructOf(fs), true
	case *datatype.UserDefined:
		if len(x.FieldTypes) == 0 {
			return nil, false
		}
		if m == Iface {
			return reflect.MapOf(reflect.TypeOf(""), tIface), true
		}
		if m == Seq {
			return reflect.SliceOf(tIface), true
		}
		if m == Untagged {
			var fs []reflect.StructField
			for i := len(x.FieldTypes) - 1; i >= 0; i-- {
				t, ok := elem(x.FieldTypes[i])
				if !ok || x.FieldNames[i] == "" {
					return nil, false
				}
				fs = append(fs, reflect.StructField{Name: udtFieldName(x.FieldNames[i]), Type: t})
			}
			return reflect.StructOf(fs), true
		}
		var fs []reflect.StructField
		for i, ft := range x.FieldTypes {
			t, ok := elem(ft)
			if !ok {
				return nil, false
			}
			name := x.FieldNames[i]
			if name == "" {
				return nil, false
			}
			fs = append(fs, reflect.StructField{Name: "F" + fmt.Sprint(i), Type: t, Tag: reflect.StructTag(`cassandra:"` + name + `"`)})
		}
		return reflect.StructOf(fs), true
	}
	reps := Reps(dt)
	if len(reps) == 0 {
		return nil, false
	}
	return reps[0].T, true
}

// Build constructs a Go value of type t (as produced by GoType) holding a.
func Build(dt datatype.DataType, a AV, t reflect.Type) (reflect.Value, bool) {
	if t == tIface {
		if a.IsNull() {
			return reflect.Zero(tIface), true
		}
		pt, ok := GoType(dt, Iface)
		if !ok {
			return reflect.Value{}, false
		}
		v, ok := Build(dt, a, pt)
		if !ok {
			return reflect.Value{}, false
		}
		iv := reflect.New(tIface).Elem()
		iv.Set(v)
		return iv, true
	}
	if t.Kind() == reflect.Ptr && t != tBigIntPtr {
		if a.IsNull() {
			return reflect.Zero(t), true
		}
		v, ok := Build(dt, a, t.Elem())
		if !ok {
			return reflect.Value{}, false
		}
		p := reflect.New(t.Elem())
		p.Elem().Set(v)
		return p, true
	}
	if a.IsNull() {
		switch t.Kind() {
		case reflect.Slice, reflect.Map, reflect.Ptr:
			return reflect.Zero(t), true
		}
		return reflect.Value{}, false // a non-nillable Go type cannot hold NULL
	}
	switch x := dt.(type) {
	case *datatype.List, *datatype.Set:
		var et datatype.DataType
		if l, ok := x.(*datatype.List); ok {
			et = l.ElementType
		} else {
			et = x.(*datatype.Set).ElementType
		}
		s := reflect.MakeSlice(t, len(a.Elems), len(a.Elems))
		for i, e := range a.Elems {
			v, ok := Build(et, e, t.Elem())
			if !ok {
				return reflect.Value{}, false
			}
			s.Index(i).Set(v)
		}
		return s, true
	case *datatype.Map:
		m := reflect.MakeMap(t)
		for i := range a.Elems {
			k, ok1 := Build(x.KeyType, a.Keys[i], t.Key())
			v, ok2 := Build(x.ValueType, a.Elems[i], t.Elem())
			if !ok1 || !ok2 {
				return reflect.Value{}, false
			}
			if t.Key() == tIface && !k.IsNil() && !hashable(k.Elem().Type()) {
				return reflect.Value{}, false
			}
			m.SetMapIndex(k, v)
		}
		if m.Len() != len(a.Elems) {
			return reflect.Value{}, false
		}
		return m, true
	case *datatype.Tuple:
		return buildFields(x.FieldTypes, nil, a, t)
	case *datatype.UserDefined:
		return buildFields(x.FieldTypes, x.FieldNames, a, t)
	}
	for _, r := range Reps(dt) {
		if r.T == t {
			return r.Make(a)
		}
	}
	return reflect.Value{}, false
}

func buildFields(fts []datatype.DataType, names []string, a AV, t reflect.Type) (reflect.Value, bool) {
	switch t.Kind() {
	case reflect.Struct:
		s := reflect.New(t).Elem()
		for i, e := range a.Elems {
			k := structField(t, names, i)
			if k < 0 {
				return reflect.Value{}, false
			}
			v, ok := Build(fts[i], e, t.Field(k).Type)
			if !ok {
				return reflect.Value{}, false
			}
			s.Field(k).Set(v)
		}
		return s, true
	case reflect.Slice:
		s := reflect.MakeSlice(t, len(a.Elems), len(a.Elems))
		for i, e := range a.Elems {
			v, ok := Build(fts[i], e, t.Elem())
			if !ok {
				return reflect.Value{}, false
			}
			s.Index(i).Set(v)
		}
		return s, true
	case reflect.Map:
		m := reflect.MakeMap(t)
		for i, e := range a.Elems {
			v, ok := Build(fts[i], e, t.Elem())
			if !ok {
				return reflect.Value{}, false
			}
			m.SetMapIndex(reflect.ValueOf(names[i]), v)
		}
		return m, true
	}
	return reflect.Value{}, false
}

// Abstract turns a decoded Go value back into an abstract value of CQL type dt.
func Abstract(dt datatype.DataType, v reflect.Value) AV {
	for v.IsValid() && (v.Kind() == reflect.Interface || (v.Kind() == reflect.Ptr && v.Type() != tBigIntPtr)) {
		if v.IsNil() {
			return Null
		}
		v = v.Elem()
	}
	if !v.IsValid() {
		return Null
	}
	switch x := dt.(type) {
	case *datatype.List, *datatype.Set:
		var et datatype.DataType
		if l, ok := x.(*datatype.List); ok {
			et = l.ElementType
		} else {
			et = x.(*datatype.Set).ElementType
		}
		if v.Kind() == reflect.Slice && v.IsNil() {
			return Null
		}
		a := AV{Kind: 'L', Elems: []AV{}}
		for i := 0; i < v.Len(); i++ {
			a.Elems = append(a.Elems, Abstract(et, v.Index(i)))
		}
		return a
	case *datatype.Map:
		if v.IsNil() {
			return Null
		}
		a := AV{Kind: 'M', Elems: []AV{}, Keys: []AV{}}
		for _, k := range v.MapKeys() {
			a.Keys = append(a.Keys, Abstract(x.KeyType, k))
			a.Elems = append(a.Elems, Abstract(x.ValueType, v.MapIndex(k)))
		}
		return a
	case *datatype.Tuple:
		return abstractFields(x.FieldTypes, nil, v)
	case *datatype.UserDefined:
		return abstractFields(x.FieldTypes, x.FieldNames, v)
	}
	for _, r := range Reps(dt) {
		if r.T == v.Type() {
			return r.Read(v)
		}
	}
	return AV{Kind: 'S', B: []byte("unexpected Go type " + v.Type().String() + " for " + fmt.Sprint(dt))}
}

func abstractFields(fts []datatype.DataType, names []string, v reflect.Value) AV {
	a := AV{Kind: 'R', Elems: []AV{}}
	switch v.Kind() {
	case reflect.Struct:
		for i := range fts {
			k := structField(v.Type(), names, i)
			if k < 0 {
				a.Elems = append(a.Elems, AV{Kind: 'S', B: []byte("missing struct field " + names[i])})
				continue
			}
			a.Elems = append(a.Elems, Abstract(fts[i], v.Field(k)))
		}
	case reflect.Slice, reflect.Array:
		if v.Kind() == reflect.Slice && v.IsNil() {
			return Null
		}
		for i := 0; i < v.Len() && i < len(fts); i++ {
			a.Elems = append(a.Elems, Abstract(fts[i], v.Index(i)))
		}
	case reflect.Map:
		if v.IsNil() {
			return Null
		}
		for i, n := range names {
			e := v.MapIndex(reflect.ValueOf(n))
			if !e.IsValid() {
				// case-insensitive lookup as documented
				for _, k := range v.MapKeys() {
					if strings.EqualFold(k.String(), n) {
						e = v.MapIndex(k)
					}
				}
			}
			if !e.IsValid() {
				a.Elems = append(a.Elems, AV{Kind: 'S', B: []byte("missing field " + n)})
				continue
			}
			a.Elems = append(a.Elems, Abstract(fts[i], e))
		}
	}
	return a
}

// Values returns a small value domain of a (possibly composite) type: for scalars the first n
// values of Domain; for composites empty, singleton and two-element values, with a NULL element at
// every position when nulls is set.
func Values(dt datatype.DataType, n int, nulls bool) []AV {
	pick := func(e datatype.DataType) []AV {
		vs := Values(e, 3, false)
		if len(vs) > 3 {
			vs = vs[:3]
		}
		return vs
	}
	switch x := dt.(type) {
	case *datatype.List, *datatype.Set:
		var et datatype.DataType
		if l, ok := x.(*datatype.List); ok {
			et = l.ElementType
		} else {
			et = x.(*datatype.Set).ElementType
		}
		es := pick(et)
		out := []AV{{Kind: 'L', Elems: []AV{}}}
		if len(es) > 0 {
			out = append(out, AV{Kind: 'L', Elems: []AV{es[0]}})
		}
		if len(es) > 1 {
			out = append(out, AV{Kind: 'L', Elems: []AV{es[1], es[0]}})
		}
		if len(es) > 2 {
			out = append(out, AV{Kind: 'L', Elems: []AV{es[2], es[1], es[0]}})
		}
		if nulls && len(es) > 1 {
			out = append(out, AV{Kind: 'L', Elems: []AV{Null}}, AV{Kind: 'L', Elems: []AV{Null, es[0]}}, AV{Kind: 'L', Elems: []AV{es[0], Null}}, AV{Kind: 'L', Elems: []AV{es[0], Null, es[1]}})
		}
		return out
	case *datatype.Map:
		ks, vs := pick(x.KeyType), pick(x.ValueType)
		out := []AV{{Kind: 'M', Elems: []AV{}, Keys: []AV{}}}
		if len(ks) > 0 && len(vs) > 0 {
			out = append(out, AV{Kind: 'M', Keys: []AV{ks[0]}, Elems: []AV{vs[0]}})
		}
		if len(ks) > 1 && len(vs) > 1 {
			out = append(out, AV{Kind: 'M', Keys: []AV{ks[0], ks[1]}, Elems: []AV{vs[1], vs[0]}})
			if nulls {
				out = append(out, AV{Kind: 'M', Keys: []AV{ks[0], ks[1]}, Elems: []AV{Null, vs[0]}}, AV{Kind: 'M', Keys: []AV{ks[0]}, Elems: []AV{Null}}, AV{Kind: 'M', Keys: []AV{Null}, Elems: []AV{vs[0]}})
			}
		}
		return out
	case *datatype.Tuple:
		return fieldValues(x.FieldTypes, nulls, pick)
	case *datatype.UserDefined:
		return fieldValues(x.FieldTypes, nulls, pick)
	}
	d := Domain(dt, false)
	if n > 0 && len(d) > n {
		d = d[:n]
	}
	return d
}

func fieldValues(fts []datatype.DataType, nulls bool, pick func(datatype.DataType) []AV) []AV {
	var doms [][]AV
	for _, ft := range fts {
		d := pick(ft)
		if len(d) == 0 {
			return nil
		}
		doms = append(doms, d)
	}
	var out []AV
	for variant := 0; variant < 2; variant++ {
		a := AV{Kind: 'R', Elems: []AV{}}
		for _, d := range doms {
			a.Elems = append(a.Elems, d[variant%len(d)])
		}
		out = append(out, a)
	}
	if nulls {
		for i := range doms {
			a := AV{Kind: 'R', Elems: []AV{}}
			for j, d := range doms {
				if i == j {
					a.Elems = append(a.Elems, Null)
				} else {
					a.Elems = append(a.Elems, d[0])
				}
			}
			out = append(out, a)
		}
		if len(doms) > 0 {
			a := AV{Kind: 'R', Elems: []AV{}}
			for range doms {
				a.Elems = append(a.Elems, Null)
			}
			out = append(out, a)
		}
	}
	return out
}

// IsComposite reports whether dt is a collection, tuple or UDT.
func IsComposite(dt datatype.DataType) bool {
	switch dt.Code() {
	case primitive.DataTypeCodeList, primitive.DataTypeCodeSet, primitive.DataTypeCodeMap, primitive.DataTypeCodeTuple, primitive.DataTypeCodeUdt:
		return true
	}
	return false
}
