package cql

import (
	"fmt"
	"reflect"

	"github.com/datastax/go-cassandra-native-protocol/datacodec"
	"github.com/datastax/go-cassandra-native-protocol/datatype"
	"github.com/datastax/go-cassandra-native-protocol/primitive"
)

// ScalarTypes lists every scalar CQL type.
func ScalarTypes() []datatype.DataType {
	return []datatype.DataType{datatype.Ascii, datatype.Bigint, datatype.Blob, datatype.Boolean, datatype.Counter, datatype.Date, datatype.Decimal, datatype.Double, datatype.Duration, datatype.Float, datatype.Inet, datatype.Int, datatype.Smallint, datatype.Time, datatype.Timestamp, datatype.Timeuuid, datatype.Tinyint, datatype.Uuid, datatype.Varchar, datatype.Varint, datatype.NewCustom("org.example.Custom")}
}

// TypeName renders a type for violation keys.
func TypeName(dt datatype.DataType) string { return fmt.Sprint(dt) }

// Encode calls codec.Encode catching panics.
func Encode(c datacodec.Codec, src interface{}, v primitive.ProtocolVersion) (b []byte, err error, panicked interface{}, site string) {
	defer func() {
		if r := recover(); r != nil {
			panicked, site = r, panicSite()
		}
	}()
	b, err = c.Encode(src, v)
	return
}

// Decode calls codec.Decode catching panics.
func Decode(c datacodec.Codec, b []byte, dest interface{}, v primitive.ProtocolVersion) (wasNull bool, err error, panicked interface{}, site string) {
	defer func() {
		if r := recover(); r != nil {
			panicked, site = r, panicSite()
		}
	}()
	wasNull, err = c.Decode(b, dest, v)
	return
}

// PtrTo returns a pointer to a copy of v.
func PtrTo(v reflect.Value) reflect.Value {
	p := reflect.New(v.Type())
	p.Elem().Set(v)
	return p
}
