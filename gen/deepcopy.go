package gen

import (
	"fmt"
	"reflect"
	"strings"

	"github.com/datastax/go-cassandra-native-protocol/datatype"
)

var tPrimitiveType = reflect.TypeOf(datatype.Int)

// Clone is an independent reflective deep copy (the library's DeepCopy methods are code under
// test for C17 and are not used by the generators or oracles).
func Clone(v interface{}) interface{} {
	if v == nil {
		return nil
	}
	return cloneVal(reflect.ValueOf(v)).Interface()
}

func cloneVal(v reflect.Value) reflect.Value {
	switch v.Kind() {
	case reflect.Ptr:
		if v.IsNil() {
			return v
		}
		if v.Type() == tPrimitiveType {
			return v // immutable singletons (datatype.Int, ...): identity is meaningful
		}
		n := reflect.New(v.Type().Elem())
		n.Elem().Set(cloneVal(v.Elem()))
		return n
	case reflect.Interface:
		if v.IsNil() {
			return v
		}
		n := reflect.New(v.Type()).Elem()
		n.Set(cloneVal(v.Elem()))
		return n
	case reflect.Struct:
		n := reflect.New(v.Type()).Elem()
		n.Set(v) // copies unexported fields bitwise (only scalar ones exist in this code base)
		for i := 0; i < v.NumField(); i++ {
			if n.Field(i).CanSet() {
				n.Field(i).Set(cloneVal(v.Field(i)))
			}
		}
		return n
	case reflect.Slice:
		if v.IsNil() {
			return v
		}
		n := reflect.MakeSlice(v.Type(), v.Len(), v.Len())
		for i := 0; i < v.Len(); i++ {
			n.Index(i).Set(cloneVal(v.Index(i)))
		}
		return n
	case reflect.Array:
		n := reflect.New(v.Type()).Elem()
		for i := 0; i < v.Len(); i++ {
			n.Index(i).Set(cloneVal(v.Index(i)))
		}
		return n
	case reflect.Map:
		if v.IsNil() {
			return v
		}
		n := reflect.MakeMapWithSize(v.Type(), v.Len())
		it := v.MapRange()
		for it.Next() {
			n.SetMapIndex(cloneVal(it.Key()), cloneVal(it.Value()))
		}
		return n
	}
	return v
}

// Equal compares two values structurally up to the distinctions the wire format cannot carry:
// nil vs empty slices and maps, an IPv4 address held in 4 or 16 bytes. Fields named in ignore
// (by "Type.Field") are skipped. It returns "" when equal, else the path of the first difference.
func Equal(a, b interface{}, ignore map[string]bool) string {
	return eq(reflect.ValueOf(a), reflect.ValueOf(b), "", ignore)
}

var ipType = reflect.TypeOf([]byte(nil)) // net.IP has underlying []byte; detected by name below

func eq(a, b reflect.Value, path string, ignore map[string]bool) string {
	if !a.IsValid() || !b.IsValid() {
		if a.IsValid() != b.IsValid() {
			// nil interface vs something
			if isEmptyish(a) && isEmptyish(b) {
				return ""
			}
			return path + ": one side is nil"
		}
		return ""
	}
	if a.Type() != b.Type() {
		return fmt.Sprintf("%s: type %v vs %v", path, a.Type(), b.Type())
	}
	switch a.Kind() {
	case reflect.Ptr, reflect.Interface:
		if a.IsNil() || b.IsNil() {
			if a.IsNil() != b.IsNil() {
				return path + ": nil vs non-nil"
			}
			return ""
		}
		return eq(a.Elem(), b.Elem(), path, ignore)
	case reflect.Struct:
		for i := 0; i < a.NumField(); i++ {
			f := a.Type().Field(i)
			if ignore[a.Type().Name()+"."+f.Name] {
				continue
			}
			if f.PkgPath != "" { // unexported
				if a.Field(i).CanInt() {
					if a.Field(i).Int() != b.Field(i).Int() {
						return path + "." + f.Name
					}
				} else if a.Field(i).CanUint() {
					if a.Field(i).Uint() != b.Field(i).Uint() {
						return path + "." + f.Name
					}
				}
				continue
			}
			if d := eq(a.Field(i), b.Field(i), path+"."+f.Name, ignore); d != "" {
				return d
			}
		}
		return ""
	case reflect.Slice:
		if a.Type().Name() == "IP" && a.Type().PkgPath() == "net" {
			x, y := normIP(a.Bytes()), normIP(b.Bytes())
			if string(x) != string(y) {
				return fmt.Sprintf("%s: ip %v vs %v", path, a.Bytes(), b.Bytes())
			}
			return ""
		}
		if a.Len() != b.Len() {
			return fmt.Sprintf("%s: len %d vs %d", path, a.Len(), b.Len())
		}
		for i := 0; i < a.Len(); i++ {
			if d := eq(a.Index(i), b.Index(i), fmt.Sprintf("%s[%d]", path, i), ignore); d != "" {
				return d
			}
		}
		return ""
	case reflect.Array:
		for i := 0; i < a.Len(); i++ {
			if d := eq(a.Index(i), b.Index(i), fmt.Sprintf("%s[%d]", path, i), ignore); d != "" {
				return d
			}
		}
		return ""
	case reflect.Map:
		if a.Len() != b.Len() {
			return fmt.Sprintf("%s: map len %d vs %d", path, a.Len(), b.Len())
		}
		it := a.MapRange()
		for it.Next() {
			bv := b.MapIndex(it.Key())
			if !bv.IsValid() {
				return fmt.Sprintf("%s: key %v missing", path, it.Key())
			}
			if d := eq(it.Value(), bv, fmt.Sprintf("%s[%v]", path, it.Key()), ignore); d != "" {
				return d
			}
		}
		return ""
	case reflect.Bool:
		if a.Bool() != b.Bool() {
			return path
		}
	case reflect.Int, reflect.Int8, reflect.Int16, reflect.Int32, reflect.Int64:
		if a.Int() != b.Int() {
			return fmt.Sprintf("%s: %d vs %d", path, a.Int(), b.Int())
		}
	case reflect.Uint, reflect.Uint8, reflect.Uint16, reflect.Uint32, reflect.Uint64:
		if a.Uint() != b.Uint() {
			return fmt.Sprintf("%s: %d vs %d", path, a.Uint(), b.Uint())
		}
	case reflect.String:
		if a.String() != b.String() {
			return fmt.Sprintf("%s: %q vs %q", path, trunc(a.String()), trunc(b.String()))
		}
	case reflect.Float32, reflect.Float64:
		if a.Float() != b.Float() {
			return path
		}
	default:
		if !reflect.DeepEqual(a.Interface(), b.Interface()) {
			return path
		}
	}
	return ""
}

func trunc(s string) string {
	if len(s) > 24 {
		return s[:24] + "…(" + fmt.Sprint(len(s)) + ")"
	}
	return s
}

func isEmptyish(v reflect.Value) bool {
	if !v.IsValid() {
		return true
	}
	switch v.Kind() {
	case reflect.Slice, reflect.Map:
		return v.Len() == 0
	case reflect.Ptr, reflect.Interface:
		return v.IsNil()
	}
	return false
}

func normIP(b []byte) []byte {
	if len(b) == 4 {
		return append([]byte{0, 0, 0, 0, 0, 0, 0, 0, 0, 0, 0xff, 0xff}, b...)
	}
	return b
}

// Describe renders a value compactly for replay files.
func Describe(v interface{}) string {
	s := fmt.Sprintf("%+v", v)
	if len(s) > 600 {
		s = s[:600] + "…"
	}
	return strings.ReplaceAll(s, "\n", " ")
}
