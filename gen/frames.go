// Package gen holds the input grammars of engine E1: finite, ordered (simplest first) families of
// frames, messages, segments payloads and CQL values. Version validity is decided here, from the
// protocol specifications, never by calling the library's capability predicates.
package gen

import (
	"fmt"
	"net"
	"reflect"
	"strings"

	"github.com/datastax/go-cassandra-native-protocol/datatype"
	"github.com/datastax/go-cassandra-native-protocol/frame"
	"github.com/datastax/go-cassandra-native-protocol/message"
	"github.com/datastax/go-cassandra-native-protocol/primitive"
)

type V = primitive.ProtocolVersion

const (
	V2   = primitive.ProtocolVersion2
	V3   = primitive.ProtocolVersion3
	V4   = primitive.ProtocolVersion4
	V5   = primitive.ProtocolVersion5
	DSE1 = primitive.ProtocolVersionDse1
	DSE2 = primitive.ProtocolVersionDse2
)

var Versions = []V{V2, V3, V4, V5, DSE1, DSE2}

// ---- version feature table, from the specs (not from the library) ----

func isDse(v V) bool          { return v == DSE1 || v == DSE2 }
func atLeast3(v V) bool       { return v != V2 }
func atLeast4(v V) bool       { return v != V2 && v != V3 }
func hasKeyspaceOpt(v V) bool { return v == V5 || v == DSE2 }
func hasNowInSec(v V) bool    { return v == V5 }
func hasReasonMap(v V) bool   { return v == V5 || isDse(v) }
func hasMetadataId(v V) bool  { return v == V5 || v == DSE2 }
func hasContentions(v V) bool { return v == V5 }

// Case is one generated frame.
type Case struct {
	Name  string
	Frame *frame.Frame
	// Invalid: the frame is NOT valid for its version (emitted only with Opts.Invalid); encoders are expected
	// to refuse it, possibly after having written part of it - an error path whose leftovers must not leak
	// into the next encode.
	Invalid bool
}

func cl(c primitive.ConsistencyLevel) *primitive.ConsistencyLevel { return &c }
func i64(v int64) *int64                                          { return &v }
func i32(v int32) *int32                                          { return &v }

func val(b ...byte) *primitive.Value {
	if b == nil {
		b = []byte{}
	}
	return &primitive.Value{Type: primitive.ValueTypeRegular, Contents: b}
}
func nullVal() *primitive.Value  { return &primitive.Value{Type: primitive.ValueTypeNull} }
func unsetVal() *primitive.Value { return &primitive.Value{Type: primitive.ValueTypeUnset} }

func rep(s string, n int) string { return strings.Repeat(s, n) }

// Bytes of a given size and compressibility class: 'z' zeros, 'r' incompressible (LCG), 't' text-like.
func Blob(n int, class byte) []byte {
	b := make([]byte, n)
	switch class {
	case 'r':
		x := uint32(2463534242)
		for i := range b {
			x ^= x << 13
			x ^= x >> 17
			x ^= x << 5
			b[i] = byte(x >> 11)
		}
	case 't':
		const words = "SELECT * FROM ks.table WHERE id = ? AND name = 'cassandra' LIMIT 100; "
		for i := range b {
			b[i] = words[i%len(words)]
		}
	}
	return b
}

func col(ks, tbl, name string, t datatype.DataType) *message.ColumnMetadata {
	return &message.ColumnMetadata{Keyspace: ks, Table: tbl, Name: name, Type: t}
}

func udt(ks, name string, fn []string, ft []datatype.DataType) datatype.DataType {
	u, err := datatype.NewUserDefined(ks, name, fn, ft)
	if err != nil {
		panic(err)
	}
	return u
}

// DataTypes returns all type trees up to the given depth over a reduced leaf set, simplest first.
// Version-specific types are filtered by TypeValid.
func DataTypes(depth int) []datatype.DataType {
	leaves := []datatype.DataType{datatype.Int, datatype.Varchar, datatype.Blob, datatype.Varint, datatype.Boolean}
	all := []datatype.DataType{datatype.Ascii, datatype.Bigint, datatype.Blob, datatype.Boolean, datatype.Counter, datatype.Decimal, datatype.Double, datatype.Float, datatype.Int, datatype.Timestamp, datatype.Uuid, datatype.Varchar, datatype.Varint, datatype.Timeuuid, datatype.Inet, datatype.Date, datatype.Time, datatype.Smallint, datatype.Tinyint, datatype.Duration, datatype.NewCustom("org.example.Type"), datatype.NewCustom("")}
	if depth <= 0 {
		return all
	}
	var build func(d int) []datatype.DataType
	build = func(d int) []datatype.DataType {
		if d == 0 {
			return leaves
		}
		sub := build(d - 1)
		var out []datatype.DataType
		out = append(out, sub...)
		for _, e := range sub {
			out = append(out, datatype.NewList(e), datatype.NewSet(e))
		}
		for i, k := range sub {
			for j, v := range sub {
				if (i+j)%3 == 0 || d == 1 {
					out = append(out, datatype.NewMap(k, v))
				}
			}
		}
		out = append(out, datatype.NewTuple(), datatype.NewTuple(sub[0]))
		for i, e := range sub {
			out = append(out, datatype.NewTuple(e, sub[(i+1)%len(sub)]))
			out = append(out, udt("ks", "t", []string{"a", "b"}, []datatype.DataType{e, sub[(i+2)%len(sub)]}))
		}
		out = append(out, udt("ks", "empty", []string{}, []datatype.DataType{}), udt("", "", []string{""}, []datatype.DataType{sub[0]}))
		return out
	}
	seen := map[string]bool{}
	var out []datatype.DataType
	for _, t := range append(all, build(depth)...) {
		k := fmt.Sprintf("%T|%v", t, describeType(t))
		if !seen[k] {
			seen[k] = true
			out = append(out, t)
		}
	}
	return out
}

func describeType(t datatype.DataType) string {
	switch x := t.(type) {
	case *datatype.UserDefined:
		s := "udt(" + x.Keyspace + "." + x.Name
		for i := range x.FieldTypes {
			s += "," + x.FieldNames[i] + ":" + describeType(x.FieldTypes[i])
		}
		return s + ")"
	case *datatype.Custom:
		return "custom(" + x.ClassName + ")"
	case *datatype.List:
		return "list<" + describeType(x.ElementType) + ">"
	case *datatype.Set:
		return "set<" + describeType(x.ElementType) + ">"
	case *datatype.Map:
		return "map<" + describeType(x.KeyType) + "," + describeType(x.ValueType) + ">"
	case *datatype.Tuple:
		s := "tuple<"
		for _, f := range x.FieldTypes {
			s += describeType(f) + ","
		}
		return s + ">"
	}
	return fmt.Sprint(t)
}

// TypeValid reports whether a data type exists in a protocol version (spec section 4.2.5.2 of
// each version: UDT and tuple from v3, date/time/smallint/tinyint from v4, duration from v5 and DSE).
func TypeValid(t datatype.DataType, v V) bool {
	switch x := t.(type) {
	case *datatype.PrimitiveType:
		switch x.Code() {
		case primitive.DataTypeCodeDate, primitive.DataTypeCodeTime, primitive.DataTypeCodeSmallint, primitive.DataTypeCodeTinyint:
			return atLeast4(v)
		case primitive.DataTypeCodeDuration:
			return v == V5 || isDse(v)
		}
		return true
	case *datatype.List:
		return TypeValid(x.ElementType, v)
	case *datatype.Set:
		return TypeValid(x.ElementType, v)
	case *datatype.Map:
		return TypeValid(x.KeyType, v) && TypeValid(x.ValueType, v)
	case *datatype.Tuple:
		if !atLeast3(v) {
			return false
		}
		for _, f := range x.FieldTypes {
			if !TypeValid(f, v) {
				return false
			}
		}
		return true
	case *datatype.UserDefined:
		if !atLeast3(v) {
			return false
		}
		for _, f := range x.FieldTypes {
			if !TypeValid(f, v) {
				return false
			}
		}
		return true
	}
	return true
}

var ipv4 = net.IPv4(192, 168, 1, 1).To4()
var ipv4in16 = net.IPv4(10, 0, 0, 255)
var ipv6 = net.ParseIP("2001:db8::ff00:42:8329")

var allConsistencies = []primitive.ConsistencyLevel{primitive.ConsistencyLevelAny, primitive.ConsistencyLevelOne, primitive.ConsistencyLevelTwo, primitive.ConsistencyLevelThree, primitive.ConsistencyLevelQuorum, primitive.ConsistencyLevelAll, primitive.ConsistencyLevelLocalQuorum, primitive.ConsistencyLevelEachQuorum, primitive.ConsistencyLevelSerial, primitive.ConsistencyLevelLocalSerial, primitive.ConsistencyLevelLocalOne}
var allWriteTypes = []primitive.WriteType{primitive.WriteTypeSimple, primitive.WriteTypeBatch, primitive.WriteTypeUnloggedBatch, primitive.WriteTypeCounter, primitive.WriteTypeBatchLog, primitive.WriteTypeCas, primitive.WriteTypeView, primitive.WriteTypeCdc}

// named message with the versions it is valid for
type namedMsg struct {
	name string
	msg  message.Message
}

// queryOptionCombos enumerates every presence vector of the optional parts of QUERY/EXECUTE
// options that is legal for the version.
func queryOptionCombos(v V) []*message.QueryOptions {
	var out []*message.QueryOptions
	valueKinds := 3
	for vk := 0; vk < valueKinds; vk++ {
		if vk == 2 && !atLeast3(v) {
			continue
		}
		for bits := 0; bits < 1<<9; bits++ {
			has := func(i int) bool { return bits&(1<<uint(i)) != 0 }
			o := &message.QueryOptions{Consistency: primitive.ConsistencyLevelQuorum}
			switch vk {
			case 1:
				o.PositionalValues = []*primitive.Value{val(1, 2), nullVal()}
			case 2:
				o.NamedValues = map[string]*primitive.Value{"a": val(7)}
			}
			o.SkipMetadata = has(0)
			if has(1) {
				o.PageSize = 100
			}
			if has(2) {
				if !isDse(v) || !has(1) {
					continue
				}
				o.PageSizeInBytes = true
			}
			if has(3) {
				o.PagingState = []byte{0xca, 0xfe}
			}
			if has(4) {
				o.SerialConsistency = cl(primitive.ConsistencyLevelLocalSerial)
			}
			if has(5) {
				if !atLeast3(v) {
					continue
				}
				o.DefaultTimestamp = i64(-1234567890123)
			}
			if has(6) {
				if !hasKeyspaceOpt(v) {
					continue
				}
				o.Keyspace = "ks1"
			}
			if has(7) {
				if !hasNowInSec(v) {
					continue
				}
				o.NowInSeconds = i32(234)
			}
			if has(8) {
				if !isDse(v) {
					continue
				}
				o.ContinuousPagingOptions = &message.ContinuousPagingOptions{MaxPages: 10, PagesPerSecond: 2}
				if v == DSE2 {
					o.ContinuousPagingOptions.NextPages = 4
				}
			}
			out = append(out, o)
		}
	}
	return out
}

func fullQueryOptions(v V) *message.QueryOptions {
	o := &message.QueryOptions{Consistency: primitive.ConsistencyLevelLocalQuorum, PositionalValues: []*primitive.Value{val(1, 2, 3), nullVal(), val()}, SkipMetadata: true, PageSize: 5000, PagingState: []byte{1, 2, 3}, SerialConsistency: cl(primitive.ConsistencyLevelSerial)}
	if atLeast3(v) {
		o.DefaultTimestamp = i64(1600000000000000)
	}
	if atLeast4(v) {
		o.PositionalValues = append(o.PositionalValues, unsetVal())
	}
	if hasKeyspaceOpt(v) {
		o.Keyspace = "ks"
	}
	if hasNowInSec(v) {
		o.NowInSeconds = i32(1600000000)
	}
	if isDse(v) {
		o.PageSizeInBytes = true
		o.ContinuousPagingOptions = &message.ContinuousPagingOptions{MaxPages: 3, PagesPerSecond: 1}
		if v == DSE2 {
			o.ContinuousPagingOptions.NextPages = 2
		}
	}
	return o
}

func reasons(n int) []*primitive.FailureReason {
	rs := []*primitive.FailureReason{{Endpoint: ipv4, Code: primitive.FailureCodeTooManyTombstonesRead}, {Endpoint: ipv6, Code: primitive.FailureCodeUnknown}}
	return rs[:n]
}

func rowsMetadataFull(v V) *message.RowsMetadata {
	m := &message.RowsMetadata{ColumnCount: 2, PagingState: []byte{9, 9}, Columns: []*message.ColumnMetadata{col("ks", "t", "a", datatype.Int), col("ks", "t", "b", datatype.NewList(datatype.Varchar))}}
	if hasMetadataId(v) {
		m.NewResultMetadataId = []byte{4, 5, 6}
	}
	if isDse(v) {
		m.ContinuousPageNumber = 3
		m.LastContinuousPage = true
	}
	return m
}

// Bases returns, for one version, the base message instances (every message kind, every
// ERROR / RESULT / EVENT variant, in a "populated" and — where meaningful — a "minimal" form).
func Bases(v V) []namedMsg {
	var b []namedMsg
	add := func(name string, m message.Message) { b = append(b, namedMsg{name, m}) }
	// --- requests
	add("STARTUP", &message.Startup{Options: map[string]string{"CQL_VERSION": "3.0.0", "COMPRESSION": "lz4"}})
	add("STARTUP.min", message.NewStartup())
	add("OPTIONS", &message.Options{})
	add("QUERY", &message.Query{Query: "SELECT * FROM t WHERE k = ?", Options: fullQueryOptions(v)})
	add("QUERY.min", &message.Query{Query: "", Options: &message.QueryOptions{}})
	add("PREPARE.min", &message.Prepare{Query: "SELECT 1"})
	if hasKeyspaceOpt(v) {
		add("PREPARE", &message.Prepare{Query: "SELECT * FROM t", Keyspace: "ks"})
	}
	ex := &message.Execute{QueryId: []byte{1, 2, 3, 4}, Options: fullQueryOptions(v)}
	exmin := &message.Execute{QueryId: []byte{0}, Options: &message.QueryOptions{}}
	if hasMetadataId(v) {
		ex.ResultMetadataId = []byte{5, 6, 7, 8}
		exmin.ResultMetadataId = []byte{1}
	}
	add("EXECUTE", ex)
	add("EXECUTE.min", exmin)
	add("REGISTER", &message.Register{EventTypes: []primitive.EventType{primitive.EventTypeSchemaChange, primitive.EventTypeTopologyChange, primitive.EventTypeStatusChange}})
	add("REGISTER.min", &message.Register{EventTypes: []primitive.EventType{primitive.EventTypeStatusChange}})
	bt := &message.Batch{Type: primitive.BatchTypeUnlogged, Consistency: primitive.ConsistencyLevelEachQuorum, Children: []*message.BatchChild{{Query: "INSERT 1", Values: []*primitive.Value{val(1), nullVal()}}, {Id: []byte{0xa, 0xb}, Values: []*primitive.Value{val(2, 3)}}}}
	if atLeast3(v) {
		bt.SerialConsistency = cl(primitive.ConsistencyLevelLocalSerial)
		bt.DefaultTimestamp = i64(123)
	}
	if hasKeyspaceOpt(v) {
		bt.Keyspace = "ks"
	}
	if hasNowInSec(v) {
		bt.NowInSeconds = i32(77)
	}
	add("BATCH", bt)
	add("BATCH.min", &message.Batch{Type: primitive.BatchTypeLogged, Consistency: primitive.ConsistencyLevelAny})
	add("AUTH_RESPONSE", &message.AuthResponse{Token: []byte{0, 'u', 0, 'p'}})
	if isDse(v) {
		add("REVISE.cancel", &message.Revise{RevisionType: primitive.DseRevisionTypeCancelContinuousPaging, TargetStreamId: 42})
		if v == DSE2 {
			add("REVISE.more", &message.Revise{RevisionType: primitive.DseRevisionTypeMoreContinuousPages, TargetStreamId: 42, NextPages: 4})
		}
	}
	// --- responses
	add("READY", &message.Ready{})
	add("AUTHENTICATE", &message.Authenticate{Authenticator: "org.apache.cassandra.auth.PasswordAuthenticator"})
	add("SUPPORTED", &message.Supported{Options: map[string][]string{"CQL_VERSION": {"3.0.0", "3.4.5"}, "COMPRESSION": {"lz4", "snappy"}}})
	add("SUPPORTED.min", &message.Supported{})
	add("AUTH_CHALLENGE", &message.AuthChallenge{Token: []byte{1, 2}})
	add("AUTH_SUCCESS", &message.AuthSuccess{Token: []byte{3}})
	add("AUTH_SUCCESS.null", &message.AuthSuccess{})
	// errors
	add("ERROR.ServerError", &message.ServerError{ErrorMessage: "boom"})
	add("ERROR.ProtocolError", &message.ProtocolError{ErrorMessage: "boom"})
	add("ERROR.AuthenticationError", &message.AuthenticationError{ErrorMessage: "boom"})
	add("ERROR.Overloaded", &message.Overloaded{ErrorMessage: "boom"})
	add("ERROR.IsBootstrapping", &message.IsBootstrapping{ErrorMessage: "boom"})
	add("ERROR.TruncateError", &message.TruncateError{ErrorMessage: "boom"})
	add("ERROR.SyntaxError", &message.SyntaxError{ErrorMessage: "boom"})
	add("ERROR.Unauthorized", &message.Unauthorized{ErrorMessage: "boom"})
	add("ERROR.Invalid", &message.Invalid{ErrorMessage: "boom"})
	add("ERROR.ConfigError", &message.ConfigError{ErrorMessage: "boom"})
	add("ERROR.Unavailable", &message.Unavailable{ErrorMessage: "boom", Consistency: primitive.ConsistencyLevelQuorum, Required: 3, Alive: 1})
	add("ERROR.ReadTimeout", &message.ReadTimeout{ErrorMessage: "boom", Consistency: primitive.ConsistencyLevelOne, Received: 1, BlockFor: 2, DataPresent: true})
	for _, wt := range allWriteTypes {
		wto := &message.WriteTimeout{ErrorMessage: "boom", Consistency: primitive.ConsistencyLevelTwo, Received: 1, BlockFor: 2, WriteType: wt}
		if wt == primitive.WriteTypeCas && hasContentions(v) {
			wto.Contentions = 5
		}
		add("ERROR.WriteTimeout."+string(wt), wto)
	}
	if atLeast4(v) {
		rf := &message.ReadFailure{ErrorMessage: "boom", Consistency: primitive.ConsistencyLevelThree, Received: 1, BlockFor: 2, DataPresent: true}
		if hasReasonMap(v) {
			rf.FailureReasons = reasons(2)
		} else {
			rf.NumFailures = 2
		}
		add("ERROR.ReadFailure", rf)
		for _, wt := range allWriteTypes {
			wf := &message.WriteFailure{ErrorMessage: "boom", Consistency: primitive.ConsistencyLevelAll, Received: 1, BlockFor: 2, WriteType: wt}
			if hasReasonMap(v) {
				wf.FailureReasons = reasons(1)
			} else {
				wf.NumFailures = 1
			}
			add("ERROR.WriteFailure."+string(wt), wf)
		}
		add("ERROR.FunctionFailure", &message.FunctionFailure{ErrorMessage: "boom", Keyspace: "ks", Function: "f", Arguments: []string{"int", "text"}})
	}
	add("ERROR.AlreadyExists", &message.AlreadyExists{ErrorMessage: "boom", Keyspace: "ks", Table: "t"})
	add("ERROR.Unprepared", &message.Unprepared{ErrorMessage: "boom", Id: []byte{1, 2, 3}})
	// results
	add("RESULT.Void", &message.VoidResult{})
	add("RESULT.SetKeyspace", &message.SetKeyspaceResult{Keyspace: "ks"})
	for _, ct := range []primitive.SchemaChangeType{primitive.SchemaChangeTypeCreated, primitive.SchemaChangeTypeUpdated, primitive.SchemaChangeTypeDropped} {
		add("RESULT.SchemaChange."+string(ct)+".KEYSPACE", &message.SchemaChangeResult{ChangeType: ct, Target: primitive.SchemaChangeTargetKeyspace, Keyspace: "ks"})
		add("RESULT.SchemaChange."+string(ct)+".TABLE", &message.SchemaChangeResult{ChangeType: ct, Target: primitive.SchemaChangeTargetTable, Keyspace: "ks", Object: "t"})
		add("EVENT.SchemaChange."+string(ct)+".KEYSPACE", &message.SchemaChangeEvent{ChangeType: ct, Target: primitive.SchemaChangeTargetKeyspace, Keyspace: "ks"})
		add("EVENT.SchemaChange."+string(ct)+".TABLE", &message.SchemaChangeEvent{ChangeType: ct, Target: primitive.SchemaChangeTargetTable, Keyspace: "ks", Object: "t"})
		if atLeast3(v) {
			add("RESULT.SchemaChange."+string(ct)+".TYPE", &message.SchemaChangeResult{ChangeType: ct, Target: primitive.SchemaChangeTargetType, Keyspace: "ks", Object: "u"})
			add("EVENT.SchemaChange."+string(ct)+".TYPE", &message.SchemaChangeEvent{ChangeType: ct, Target: primitive.SchemaChangeTargetType, Keyspace: "ks", Object: "u"})
		}
		if atLeast4(v) {
			add("RESULT.SchemaChange."+string(ct)+".FUNCTION", &message.SchemaChangeResult{ChangeType: ct, Target: primitive.SchemaChangeTargetFunction, Keyspace: "ks", Object: "f", Arguments: []string{"int", "list<text>"}})
			add("RESULT.SchemaChange."+string(ct)+".AGGREGATE", &message.SchemaChangeResult{ChangeType: ct, Target: primitive.SchemaChangeTargetAggregate, Keyspace: "ks", Object: "agg", Arguments: []string{}})
			add("EVENT.SchemaChange."+string(ct)+".FUNCTION", &message.SchemaChangeEvent{ChangeType: ct, Target: primitive.SchemaChangeTargetFunction, Keyspace: "ks", Object: "f", Arguments: []string{"int"}})
			add("EVENT.SchemaChange."+string(ct)+".AGGREGATE", &message.SchemaChangeEvent{ChangeType: ct, Target: primitive.SchemaChangeTargetAggregate, Keyspace: "ks", Object: "agg", Arguments: []string{"int", "text"}})
		}
	}
	pr := &message.PreparedResult{PreparedQueryId: []byte{1, 2, 3, 4},
		VariablesMetadata: &message.VariablesMetadata{Columns: []*message.ColumnMetadata{col("ks", "t", "k", datatype.Int), col("ks", "t", "v", datatype.NewMap(datatype.Varchar, datatype.Blob))}},
		ResultMetadata:    &message.RowsMetadata{ColumnCount: 1, Columns: []*message.ColumnMetadata{col("ks", "t", "v", datatype.Uuid)}}}
	prmin := &message.PreparedResult{PreparedQueryId: []byte{9}}
	if atLeast4(v) {
		pr.VariablesMetadata.PkIndices = []uint16{1, 0}
	}
	if hasMetadataId(v) {
		pr.ResultMetadataId = []byte{7, 7}
		prmin.ResultMetadataId = []byte{1}
	}
	add("RESULT.Prepared", pr)
	add("RESULT.Prepared.min", prmin)
	add("RESULT.Rows", &message.RowsResult{Metadata: rowsMetadataFull(v), Data: message.RowSet{{[]byte{0, 0, 0, 1}, nil}, {[]byte{}, []byte{0, 0, 0, 0}}}})
	add("RESULT.Rows.min", &message.RowsResult{Metadata: &message.RowsMetadata{}, Data: message.RowSet{}})
	add("RESULT.Rows.nometa", &message.RowsResult{Metadata: &message.RowsMetadata{ColumnCount: 2}, Data: message.RowSet{{[]byte{1}, []byte{2}}}})
	add("RESULT.Rows.difftables", &message.RowsResult{Metadata: &message.RowsMetadata{ColumnCount: 2, Columns: []*message.ColumnMetadata{col("ks1", "t", "a", datatype.Int), col("ks2", "t", "b", datatype.Bigint)}}, Data: message.RowSet{{nil, []byte{}}}})
	// events
	for _, st := range []primitive.StatusChangeType{primitive.StatusChangeTypeUp, primitive.StatusChangeTypeDown} {
		add("EVENT.StatusChange."+string(st), &message.StatusChangeEvent{ChangeType: st, Address: &primitive.Inet{Addr: ipv4, Port: 9042}})
	}
	tts := []primitive.TopologyChangeType{primitive.TopologyChangeTypeNewNode, primitive.TopologyChangeTypeRemovedNode}
	if v == V3 {
		tts = append(tts, primitive.TopologyChangeTypeMovedNode) // the only spec that lists MOVED_NODE
	}
	for _, tt := range tts {
		add("EVENT.TopologyChange."+string(tt), &message.TopologyChangeEvent{ChangeType: tt, Address: &primitive.Inet{Addr: ipv6, Port: 7000}})
	}
	return b
}

// ---------------------------------------------------------------------------------------------
// deviations: alternative values per leaf, found by a reflective walk

type deviation struct {
	path  string
	apply func(root reflect.Value)
}

var (
	tConsistency  = reflect.TypeOf(primitive.ConsistencyLevel(0))
	tWriteType    = reflect.TypeOf(primitive.WriteType(""))
	tBatchType    = reflect.TypeOf(primitive.BatchType(0))
	tEventType    = reflect.TypeOf(primitive.EventType(""))
	tDataType     = reflect.TypeOf((*datatype.DataType)(nil)).Elem()
	tValuePtr     = reflect.TypeOf((*primitive.Value)(nil))
	tIP           = reflect.TypeOf(net.IP(nil))
	tFailureCode  = reflect.TypeOf(primitive.FailureCode(0))
	tSchemaType   = reflect.TypeOf(primitive.SchemaChangeType(""))
	tSchemaTarget = reflect.TypeOf(primitive.SchemaChangeTarget(""))
	tTopo         = reflect.TypeOf(primitive.TopologyChangeType(""))
	tStatus       = reflect.TypeOf(primitive.StatusChangeType(""))
	tRevision     = reflect.TypeOf(primitive.DseRevisionType(0))
)

var stringAlts = []string{"", "a", "é✓", rep("x", 255), rep("y", 256)}
var bigString = rep("z", 65535)
var halfString = rep("h", 32768)
var int32Alts = []int32{0, 1, -1, -2147483648, 2147483647, 127, 128, 255, 256, 32767, 32768, 65535, 65536}

// alternatives returns the alternative values of one leaf; lvl 0 = small domains (used for pairs and triples), 1 = adds 2^15-byte strings and ids, 2 = adds the 64 KiB ones.
func alternatives(t reflect.Type, field string, v V, lvl int, types []datatype.DataType) []reflect.Value {
	var out []reflect.Value
	add := func(x interface{}) { out = append(out, reflect.ValueOf(x).Convert(t)) }
	switch t {
	case tConsistency:
		for _, c := range allConsistencies {
			add(c)
		}
		return out
	case tWriteType:
		for _, w := range allWriteTypes {
			add(w)
		}
		return out
	case tBatchType:
		add(primitive.BatchTypeLogged)
		add(primitive.BatchTypeUnlogged)
		add(primitive.BatchTypeCounter)
		return out
	case tFailureCode:
		for _, c := range []primitive.FailureCode{primitive.FailureCodeUnknown, primitive.FailureCodeTooManyTombstonesRead, primitive.FailureCodeIndexNotAvailable, primitive.FailureCodeCdcSpaceFull, primitive.FailureCodeCounterWrite, primitive.FailureCodeTableNotFound, primitive.FailureCodeKeyspaceNotFound} {
			add(c)
		}
		return out
	case tSchemaType, tSchemaTarget, tTopo, tStatus, tRevision, tEventType:
		return nil // variants are separate bases
	case tIP:
		add(ipv4)
		add(ipv4in16)
		add(ipv6)
		return out
	case tValuePtr:
		out = append(out, reflect.ValueOf(val(1)), reflect.ValueOf(val()), reflect.ValueOf(nullVal()), reflect.ValueOf(val(Blob(300, 't')...)))
		if atLeast4(v) {
			out = append(out, reflect.ValueOf(unsetVal()))
		}
		return out
	}
	if t == tDataType {
		for _, dt := range types {
			if TypeValid(dt, v) {
				out = append(out, reflect.ValueOf(dt))
			}
		}
		return out
	}
	switch t.Kind() {
	case reflect.String:
		for _, s := range stringAlts {
			add(s)
		}
		if lvl >= 1 {
			add(halfString) // 2^15 bytes: the [string] length is an unsigned short
		}
		if lvl >= 2 {
			add(bigString)
		}
	case reflect.Bool:
		add(false)
		add(true)
	case reflect.Int32:
		for _, i := range int32Alts {
			add(i)
		}
	case reflect.Uint16:
		for _, i := range []uint16{0, 1, 255, 256, 65535} {
			add(i)
		}
	case reflect.Int16:
		for _, i := range []int16{0, 1, -1, 127, -128, 32767, -32768} {
			add(i)
		}
	case reflect.Int64:
		for _, i := range []int64{0, 1, -1, -9223372036854775808, 9223372036854775807} {
			add(i)
		}
	case reflect.Slice:
		if t.Elem().Kind() == reflect.Uint8 { // []byte
			out = append(out, reflect.Zero(t), reflect.ValueOf([]byte{}).Convert(t), reflect.ValueOf([]byte{0}).Convert(t), reflect.ValueOf(Blob(300, 'z')).Convert(t), reflect.ValueOf(Blob(300, 'r')).Convert(t))
			if lvl >= 1 && strings.HasSuffix(field, "Id") {
				// [short bytes] notation: the length is an UNSIGNED short, so ids of 2^15 bytes and more are legal
				for _, n := range []int{32767, 32768, 65535} {
					out = append(out, reflect.ValueOf(Blob(n, 'r')).Convert(t))
				}
			}
			if lvl >= 2 {
				out = append(out, reflect.ValueOf(Blob(70000, 't')).Convert(t))
			}
		}
	}
	return out
}

// walk collects single-field deviations below v (addressable), depth first in field order.
func walk(v reflect.Value, path string, ver V, lvl int, types []datatype.DataType, emit func(path string, set func(alt reflect.Value), alts []reflect.Value)) {
	t := v.Type()
	if alts := alternatives(t, path, ver, lvl, types); alts != nil || t == tDataType || t == tSchemaType || t == tSchemaTarget || t == tTopo || t == tStatus || t == tRevision || t == tEventType {
		if len(alts) > 0 {
			emit(path, func(a reflect.Value) { v.Set(a) }, alts)
		}
		if t != tValuePtr {
			return
		}
		return
	}
	switch v.Kind() {
	case reflect.Ptr:
		// alternatives: nil / non-nil
		if v.IsNil() {
			return
		}
		emit(path+"=nil", func(a reflect.Value) { v.Set(a) }, []reflect.Value{reflect.Zero(t)})
		walk(v.Elem(), path, ver, lvl, types, emit)
	case reflect.Interface:
		if !v.IsNil() {
			// walk the concrete value through a settable copy
			c := reflect.New(v.Elem().Type()).Elem()
			c.Set(v.Elem())
			if c.Kind() == reflect.Ptr && !c.IsNil() {
				walk(c.Elem(), path, ver, lvl, types, emit)
			}
		}
	case reflect.Struct:
		for i := 0; i < v.NumField(); i++ {
			if t.Field(i).PkgPath != "" {
				continue
			}
			walk(v.Field(i), path+"."+t.Field(i).Name, ver, lvl, types, emit)
		}
	case reflect.Slice:
		// sizes: nil, empty, first element only, duplicated last element
		if v.IsNil() {
			return
		}
		var alts []reflect.Value
		alts = append(alts, reflect.Zero(t), reflect.MakeSlice(t, 0, 0))
		if v.Len() > 1 {
			alts = append(alts, v.Slice(0, 1))
		}
		if v.Len() > 0 {
			ext := reflect.AppendSlice(reflect.MakeSlice(t, 0, v.Len()+1), v)
			last := cloneVal(v.Index(v.Len() - 1))
			switch last.Kind() { // make the appended element differ from its neighbour
			case reflect.Uint16, reflect.Uint8, reflect.Uint32, reflect.Uint64:
				last.SetUint(last.Uint() + 1)
			case reflect.Int32, reflect.Int64, reflect.Int16:
				last.SetInt(last.Int() + 1)
			case reflect.String:
				if last.Type() == reflect.TypeOf("") {
					last.SetString(last.String() + "2")
				}
			}
			ext = reflect.Append(ext, last)
			alts = append(alts, ext)
		}
		emit(path+"#len", func(a reflect.Value) { v.Set(a) }, alts)
		for i := 0; i < v.Len() && i < 2; i++ {
			walk(v.Index(i), fmt.Sprintf("%s[%d]", path, i), ver, lvl, types, emit)
		}
	case reflect.Map:
		if v.IsNil() {
			return
		}
		var alts []reflect.Value
		alts = append(alts, reflect.Zero(t), reflect.MakeMap(t))
		// one more entry with an empty-ish key
		if t.Key().Kind() == reflect.String {
			m := cloneVal(v)
			var zero reflect.Value
			it := v.MapRange()
			if it.Next() {
				zero = cloneVal(it.Value())
			} else {
				zero = reflect.Zero(t.Elem())
			}
			m.SetMapIndex(reflect.ValueOf("").Convert(t.Key()), zero)
			alts = append(alts, m)
			m2 := reflect.MakeMap(t)
			m2.SetMapIndex(reflect.ValueOf(rep("k", 300)).Convert(t.Key()), reflect.Zero(t.Elem()))
			alts = append(alts, m2)
		}
		emit(path+"#map", func(a reflect.Value) { v.Set(a) }, alts)
	}
}
