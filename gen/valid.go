package gen

import (
	"github.com/datastax/go-cassandra-native-protocol/frame"
	"github.com/datastax/go-cassandra-native-protocol/message"
	"github.com/datastax/go-cassandra-native-protocol/primitive"
)

// Valid reports whether a frame uses only features the specification of its version defines, is
// in canonical form for fields the API documents as ignored, and has its mandatory fields set
// (DESIGN §2.5). It is written from the specs and the struct documentation; it calls no
// capability predicate of the library. When in doubt it answers false: a frame that is not
// generated cannot raise a false alarm.
func Valid(f *frame.Frame) bool {
	v := f.Header.Version
	h := f.Header
	if f.Body == nil || f.Body.Message == nil {
		return false
	}
	m := f.Body.Message
	if h.IsResponse != m.IsResponse() || h.OpCode != m.GetOpCode() {
		return false
	}
	if v == V2 && (h.StreamId > 127 || h.StreamId < -128) {
		return false
	}
	known := primitive.HeaderFlagCompressed | primitive.HeaderFlagTracing | primitive.HeaderFlagCustomPayload | primitive.HeaderFlagWarning
	if h.Flags&^known != 0 {
		return false
	}
	// body prefix parts must match the flags exactly
	if h.IsResponse {
		if h.Flags.Contains(primitive.HeaderFlagTracing) != (f.Body.TracingId != nil) {
			return false
		}
	} else if f.Body.TracingId != nil {
		return false
	}
	if h.Flags.Contains(primitive.HeaderFlagCustomPayload) != (len(f.Body.CustomPayload) > 0) {
		return false
	}
	if h.Flags.Contains(primitive.HeaderFlagWarning) != (len(f.Body.Warnings) > 0) {
		return false
	}
	if (len(f.Body.CustomPayload) > 0 || len(f.Body.Warnings) > 0) && !atLeast4(v) {
		return false
	}
	if len(f.Body.Warnings) > 0 && !h.IsResponse {
		return false
	}
	if h.Flags.Contains(primitive.HeaderFlagCompressed) {
		switch m.(type) {
		case *message.Startup, *message.Options, *message.Ready:
			return false
		}
	}
	return validMsg(m, v)
}

func validValues(vals []*primitive.Value, v V) bool {
	if len(vals) > 65535 {
		return false
	}
	for _, x := range vals {
		if x == nil {
			return false
		}
		switch x.Type {
		case primitive.ValueTypeRegular:
			if x.Contents == nil {
				return false // a regular value with nil contents is written as null: not canonical
			}
		case primitive.ValueTypeNull:
			if x.Contents != nil {
				return false
			}
		case primitive.ValueTypeUnset:
			if !atLeast4(v) || x.Contents != nil {
				return false
			}
		default:
			return false
		}
	}
	return true
}

func validConsistency(c primitive.ConsistencyLevel) bool {
	for _, x := range allConsistencies {
		if x == c {
			return true
		}
	}
	return false
}

func validOptions(o *message.QueryOptions, v V) bool {
	if o == nil {
		return false // nil means "defaults" and decodes as an empty struct: not canonical
	}
	if !validConsistency(o.Consistency) {
		return false
	}
	if o.PositionalValues != nil && o.NamedValues != nil {
		return false // named values are ignored when positional values are present
	}
	if o.NamedValues != nil {
		if !atLeast3(v) {
			return false
		}
		for k, x := range o.NamedValues {
			if len(k) > 65535 || !validValues([]*primitive.Value{x}, v) {
				return false
			}
		}
	}
	if !validValues(o.PositionalValues, v) {
		return false
	}
	if o.PageSize < 0 {
		return false // <= 0 means "absent"
	}
	if o.PageSizeInBytes && (!isDse(v) || o.PageSize <= 0) {
		return false
	}
	if o.SerialConsistency != nil && *o.SerialConsistency != primitive.ConsistencyLevelSerial && *o.SerialConsistency != primitive.ConsistencyLevelLocalSerial {
		return false
	}
	if o.DefaultTimestamp != nil && !atLeast3(v) {
		return false
	}
	if o.Keyspace != "" && !hasKeyspaceOpt(v) {
		return false
	}
	if len(o.Keyspace) > 65535 {
		return false
	}
	if o.NowInSeconds != nil && !hasNowInSec(v) {
		return false
	}
	if c := o.ContinuousPagingOptions; c != nil {
		if !isDse(v) {
			return false
		}
		if v == DSE1 && c.NextPages != 0 {
			return false
		}
	}
	return true
}

func validStr(ss ...string) bool {
	for _, s := range ss {
		if len(s) > 65535 {
			return false
		}
	}
	return true
}

func validCols(cols []*message.ColumnMetadata, v V) bool {
	for _, c := range cols {
		if c == nil || c.Type == nil || !TypeValid(c.Type, v) || !validStr(c.Keyspace, c.Table, c.Name) || c.Index != 0 {
			return false
		}
		if !validTypeStrings(c) {
			return false
		}
	}
	return true
}

func validTypeStrings(c *message.ColumnMetadata) bool { return true }

func validRowsMeta(rm *message.RowsMetadata, v V, prepared bool) bool {
	if rm == nil {
		return false
	}
	if len(rm.Columns) > 0 && int(rm.ColumnCount) != len(rm.Columns) {
		return false
	}
	if rm.ColumnCount < 0 {
		return false
	}
	if rm.NewResultMetadataId != nil && (!hasMetadataId(v) || len(rm.NewResultMetadataId) == 0 || len(rm.NewResultMetadataId) > 65535) {
		return false
	}
	if rm.ContinuousPageNumber != 0 && (!isDse(v) || rm.ContinuousPageNumber < 0) {
		return false
	}
	if rm.LastContinuousPage && rm.ContinuousPageNumber <= 0 {
		return false
	}
	return validCols(rm.Columns, v)
}

func validMsg(m message.Message, v V) bool {
	switch x := m.(type) {
	case *message.Startup:
		for k, val := range x.Options {
			if !validStr(k, val) {
				return false
			}
		}
		return true
	case *message.Options, *message.Ready, *message.VoidResult:
		return true
	case *message.Query:
		return validOptions(x.Options, v)
	case *message.Prepare:
		if x.Query == "" {
			return false
		}
		return x.Keyspace == "" || (hasKeyspaceOpt(v) && validStr(x.Keyspace))
	case *message.Execute:
		if len(x.QueryId) == 0 || len(x.QueryId) > 65535 {
			return false
		}
		if hasMetadataId(v) {
			if len(x.ResultMetadataId) == 0 || len(x.ResultMetadataId) > 65535 {
				return false
			}
		} else if x.ResultMetadataId != nil {
			return false
		}
		return validOptions(x.Options, v)
	case *message.Register:
		if len(x.EventTypes) == 0 {
			return false
		}
		for _, e := range x.EventTypes {
			if e != primitive.EventTypeSchemaChange && e != primitive.EventTypeStatusChange && e != primitive.EventTypeTopologyChange {
				return false
			}
		}
		return true
	case *message.Batch:
		if x.Type != primitive.BatchTypeLogged && x.Type != primitive.BatchTypeUnlogged && x.Type != primitive.BatchTypeCounter {
			return false
		}
		if !validConsistency(x.Consistency) {
			return false
		}
		for _, c := range x.Children {
			if c == nil {
				return false
			}
			if (c.Query == "") == (len(c.Id) == 0) {
				return false // exactly one of query string / prepared id
			}
			if len(c.Id) > 65535 || !validValues(c.Values, v) {
				return false
			}
		}
		if x.SerialConsistency != nil && (!atLeast3(v) || (*x.SerialConsistency != primitive.ConsistencyLevelSerial && *x.SerialConsistency != primitive.ConsistencyLevelLocalSerial)) {
			return false
		}
		if x.DefaultTimestamp != nil && !atLeast3(v) {
			return false
		}
		if x.Keyspace != "" && (!hasKeyspaceOpt(v) || !validStr(x.Keyspace)) {
			return false
		}
		if x.NowInSeconds != nil && !hasNowInSec(v) {
			return false
		}
		return true
	case *message.AuthResponse, *message.AuthChallenge, *message.AuthSuccess:
		return true
	case *message.Revise:
		if !isDse(v) {
			return false
		}
		switch x.RevisionType {
		case primitive.DseRevisionTypeCancelContinuousPaging:
			return x.NextPages == 0
		case primitive.DseRevisionTypeMoreContinuousPages:
			return v == DSE2
		}
		return false
	case *message.Authenticate:
		return x.Authenticator != "" && validStr(x.Authenticator)
	case *message.Supported:
		for k, l := range x.Options {
			if !validStr(k) || !validStr(l...) || len(l) > 65535 {
				return false
			}
		}
		return true
	case message.Error:
		return validError(x, v)
	case *message.SetKeyspaceResult:
		return x.Keyspace != "" && validStr(x.Keyspace)
	case *message.SchemaChangeResult:
		return validSchemaChange(x.ChangeType, x.Target, x.Keyspace, x.Object, x.Arguments, v)
	case *message.SchemaChangeEvent:
		return validSchemaChange(x.ChangeType, x.Target, x.Keyspace, x.Object, x.Arguments, v)
	case *message.PreparedResult:
		if len(x.PreparedQueryId) == 0 || len(x.PreparedQueryId) > 65535 {
			return false
		}
		if hasMetadataId(v) {
			if len(x.ResultMetadataId) == 0 || len(x.ResultMetadataId) > 65535 {
				return false
			}
		} else if x.ResultMetadataId != nil {
			return false
		}
		if x.VariablesMetadata == nil || x.ResultMetadata == nil {
			return false // nil means "defaults", decodes as empty structs
		}
		if len(x.VariablesMetadata.PkIndices) > 0 && !atLeast4(v) {
			return false
		}
		if !validCols(x.VariablesMetadata.Columns, v) {
			return false
		}
		rm := x.ResultMetadata
		// a prepared statement's result metadata carries no paging state / continuous paging
		if rm.PagingState != nil || rm.NewResultMetadataId != nil || rm.ContinuousPageNumber != 0 || rm.LastContinuousPage {
			return false
		}
		return validRowsMeta(rm, v, true)
	case *message.RowsResult:
		if !validRowsMeta(x.Metadata, v, false) {
			return false
		}
		for _, r := range x.Data {
			if len(r) != int(x.Metadata.ColumnCount) {
				return false
			}
		}
		return true
	case *message.StatusChangeEvent:
		return (x.ChangeType == primitive.StatusChangeTypeUp || x.ChangeType == primitive.StatusChangeTypeDown) && validInet(x.Address)
	case *message.TopologyChangeEvent:
		switch x.ChangeType {
		case primitive.TopologyChangeTypeNewNode, primitive.TopologyChangeTypeRemovedNode:
		case primitive.TopologyChangeTypeMovedNode:
			if v != V3 {
				return false
			}
		default:
			return false
		}
		return validInet(x.Address)
	}
	return false
}

func validInet(a *primitive.Inet) bool {
	return a != nil && (len(a.Addr) == 4 || len(a.Addr) == 16)
}

func validSchemaChange(ct primitive.SchemaChangeType, tg primitive.SchemaChangeTarget, ks, obj string, args []string, v V) bool {
	if ct != primitive.SchemaChangeTypeCreated && ct != primitive.SchemaChangeTypeUpdated && ct != primitive.SchemaChangeTypeDropped {
		return false
	}
	if ks == "" || !validStr(ks, obj) || !validStr(args...) {
		return false
	}
	switch tg {
	case primitive.SchemaChangeTargetKeyspace:
		return obj == "" && args == nil
	case primitive.SchemaChangeTargetTable:
		return obj != "" && args == nil
	case primitive.SchemaChangeTargetType:
		return atLeast3(v) && obj != "" && args == nil
	case primitive.SchemaChangeTargetFunction, primitive.SchemaChangeTargetAggregate:
		return atLeast4(v) && obj != "" && len(args) <= 65535
	}
	return false
}

func validWriteType(w primitive.WriteType) bool {
	for _, x := range allWriteTypes {
		if x == w {
			return true
		}
	}
	return false
}

func validReasons(rs []*primitive.FailureReason) bool {
	seen := map[string]bool{}
	for _, r := range rs {
		if r == nil || (len(r.Endpoint) != 4 && len(r.Endpoint) != 16) {
			return false
		}
		k := string(normIP(r.Endpoint))
		if seen[k] {
			return false // a map cannot hold the same endpoint twice
		}
		seen[k] = true
	}
	return true
}

func validError(e message.Error, v V) bool {
	if !validStr(e.GetErrorMessage()) {
		return false
	}
	switch x := e.(type) {
	case *message.Unavailable:
		return validConsistency(x.Consistency)
	case *message.ReadTimeout:
		return validConsistency(x.Consistency)
	case *message.WriteTimeout:
		if !validConsistency(x.Consistency) || !validWriteType(x.WriteType) {
			return false
		}
		if x.Contentions != 0 && !(hasContentions(v) && x.WriteType == primitive.WriteTypeCas) {
			return false
		}
		return true
	case *message.ReadFailure:
		if !atLeast4(v) || !validConsistency(x.Consistency) {
			return false
		}
		if hasReasonMap(v) {
			return x.NumFailures == 0 && validReasons(x.FailureReasons)
		}
		return x.FailureReasons == nil
	case *message.WriteFailure:
		if !atLeast4(v) || !validConsistency(x.Consistency) || !validWriteType(x.WriteType) {
			return false
		}
		if hasReasonMap(v) {
			return x.NumFailures == 0 && validReasons(x.FailureReasons)
		}
		return x.FailureReasons == nil
	case *message.FunctionFailure:
		return atLeast4(v) && validStr(x.Keyspace, x.Function) && validStr(x.Arguments...)
	case *message.AlreadyExists:
		return validStr(x.Keyspace, x.Table)
	case *message.Unprepared:
		return len(x.Id) > 0 && len(x.Id) <= 65535
	}
	return true
}
