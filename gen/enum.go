package gen

import (
	"fmt"
	"reflect"

	"github.com/datastax/go-cassandra-native-protocol/datatype"
	"github.com/datastax/go-cassandra-native-protocol/frame"
	"github.com/datastax/go-cassandra-native-protocol/message"
	"github.com/datastax/go-cassandra-native-protocol/primitive"
)

// Opts selects the deviation bound and the expensive alternatives.
type Opts struct {
	D         int  // maximal number of message fields away from their base value (1, 2 or 3)
	Thorough  bool // include 65535-byte strings, 70000-byte blobs
	TypeDepth int  // depth of the data-type trees used as alternatives for column types
	Invalid   bool // also emit the frames that are not valid for the version (Case.Invalid), for error-path histories
}

func (o Opts) lvl() int {
	switch {
	case o.Thorough:
		return 2
	case o.TypeDepth == 0:
		return 0
	}
	return 1
}

type devRef struct {
	idx, alt int
	path     string
}

// listDevs enumerates (deviation index, alternative index) pairs of a message.
func listDevs(m message.Message, v V, o Opts, types []datatype.DataType) []devRef {
	var out []devRef
	i := 0
	walk(reflect.ValueOf(m).Elem(), "", v, o.lvl(), types, func(path string, set func(reflect.Value), alts []reflect.Value) {
		for a := range alts {
			out = append(out, devRef{i, a, path})
		}
		i++
	})
	return out
}

type stop struct{}

// applyDev sets alternative alt at the idx-th deviation point of m (m is modified in place).
func applyDev(m message.Message, v V, o Opts, types []datatype.DataType, idx, alt int) (ok bool) {
	i := 0
	defer func() {
		if r := recover(); r != nil {
			if _, is := r.(stop); !is {
				panic(r)
			}
		}
	}()
	walk(reflect.ValueOf(m).Elem(), "", v, o.lvl(), types, func(path string, set func(reflect.Value), alts []reflect.Value) {
		if i == idx {
			if alt < len(alts) {
				set(alts[alt])
				ok = true
			}
			panic(stop{})
		}
		i++
	})
	return
}

var tracingUUID = primitive.UUID{0, 1, 2, 3, 4, 5, 6, 7, 8, 9, 10, 11, 12, 13, 14, 15}

// headerVariants returns frames around msg: stream ids and every subset of body-prefix parts
// legal for direction and version.
func headerVariants(v V, m message.Message) []*frame.Frame {
	var out []*frame.Frame
	mk := func(id int16) *frame.Frame {
		return &frame.Frame{Header: &frame.Header{IsResponse: m.IsResponse(), Version: v, StreamId: id, OpCode: m.GetOpCode()}, Body: &frame.Body{Message: m}}
	}
	for _, id := range []int16{0, -1, 127, -128, 32767, -32768} {
		out = append(out, mk(id))
	}
	for bits := 1; bits < 8; bits++ {
		f := mk(1)
		if bits&1 != 0 {
			f.Header.Flags |= primitive.HeaderFlagTracing
			if m.IsResponse() {
				u := tracingUUID
				f.Body.TracingId = &u
			}
		}
		if bits&2 != 0 {
			f.Header.Flags |= primitive.HeaderFlagCustomPayload
			f.Body.CustomPayload = map[string][]byte{"k": {1, 2}, "": nil}
		}
		if bits&4 != 0 {
			f.Header.Flags |= primitive.HeaderFlagWarning
			f.Body.Warnings = []string{"w1", ""}
		}
		out = append(out, f)
	}
	return out
}

// Frames enumerates the version-valid frames of version v within the bounds of o, simplest
// first, and calls emit for each. The frame passed to emit is freshly built and may be modified.
func Frames(v V, o Opts, emit func(Case)) {
	types := DataTypes(o.TypeDepth)
	out := func(name string, f *frame.Frame) {
		if Valid(f) {
			emit(Case{Name: fmt.Sprintf("%v/%s", v, name), Frame: f})
		} else if o.Invalid {
			emit(Case{Name: fmt.Sprintf("%v/%s", v, name), Frame: f, Invalid: true})
		}
	}
	plain := func(m message.Message) *frame.Frame {
		return &frame.Frame{Header: &frame.Header{IsResponse: m.IsResponse(), Version: v, StreamId: 1, OpCode: m.GetOpCode()}, Body: &frame.Body{Message: m}}
	}
	bases := Bases(v)
	// 0 deviations: every base, then every header variant of every base
	for _, b := range bases {
		out(b.name, plain(Clone(b.msg).(message.Message)))
	}
	for _, b := range bases {
		for i, f := range headerVariants(v, Clone(b.msg).(message.Message)) {
			out(fmt.Sprintf("%s/hdr%d", b.name, i), f)
		}
	}
	// presence vectors of QUERY / EXECUTE options
	for i, qo := range queryOptionCombos(v) {
		out(fmt.Sprintf("QUERY/opts%d", i), plain(&message.Query{Query: "q", Options: qo}))
		ex := &message.Execute{QueryId: []byte{1}, Options: Clone(qo).(*message.QueryOptions)}
		if hasMetadataId(v) {
			ex.ResultMetadataId = []byte{2}
		}
		out(fmt.Sprintf("EXECUTE/opts%d", i), plain(ex))
	}
	// 1 deviation, for every base; then pairs for every base; then triples: simplest first, so that a
	// deadline cuts the deepest level only
	for _, b := range bases {
		devs := listDevs(b.msg, v, o, types)
		for _, d := range devs {
			m := Clone(b.msg).(message.Message)
			if applyDev(m, v, o, types, d.idx, d.alt) {
				out(fmt.Sprintf("%s/%s=%d", b.name, d.path, d.alt), plain(m))
			}
		}
	}
	small := Opts{D: 2, Thorough: false, TypeDepth: 0}
	stypes := DataTypes(0)[:6]
	for level := 2; level <= o.D && level <= 3; level++ {
		for _, b := range bases {
			// deviations at distinct points; the later point (in walk order) is applied first
			sd := listDevs(b.msg, v, small, stypes)
			for x := 0; x < len(sd); x++ {
				for y := x + 1; y < len(sd); y++ {
					if sd[x].idx == sd[y].idx {
						continue
					}
					if level == 2 {
						m := Clone(b.msg).(message.Message)
						if applyDev(m, v, small, stypes, sd[y].idx, sd[y].alt) && applyDev(m, v, small, stypes, sd[x].idx, sd[x].alt) {
							out(fmt.Sprintf("%s/%s=%d,%s=%d", b.name, sd[x].path, sd[x].alt, sd[y].path, sd[y].alt), plain(m))
						}
						continue
					}
					for z := y + 1; z < len(sd); z++ {
						if sd[z].idx == sd[y].idx || sd[z].idx == sd[x].idx {
							continue
						}
						m := Clone(b.msg).(message.Message)
						if applyDev(m, v, small, stypes, sd[z].idx, sd[z].alt) && applyDev(m, v, small, stypes, sd[y].idx, sd[y].alt) && applyDev(m, v, small, stypes, sd[x].idx, sd[x].alt) {
							out(fmt.Sprintf("%s/%s=%d,%s=%d,%s=%d", b.name, sd[x].path, sd[x].alt, sd[y].path, sd[y].alt, sd[z].path, sd[z].alt), plain(m))
						}
					}
				}
			}
		}
	}
}

// NamedMsg is a base message with its name.
type NamedMsg struct {
	Name string
	Msg  message.Message
}

// BasesPublic exposes the base messages of a version.
func BasesPublic(v V) []NamedMsg {
	var out []NamedMsg
	for _, b := range Bases(v) {
		out = append(out, NamedMsg{b.name, b.msg})
	}
	return out
}

// ValidMsgPublic exposes the message-level validity predicate.
func ValidMsgPublic(m message.Message, v V) bool { return validMsg(m, v) }
