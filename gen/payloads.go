package gen

// PayloadClasses are the content classes of segment payloads / compressor inputs: ratios from
// below 1 (incompressible) to about 250:1; p65535..p65537 are incompressible blocks repeated at the
// edge of LZ4's 64 KiB match window (the longest legal match distance is 65535).
var PayloadClasses = []string{"zeros", "p1", "p2", "p3", "p7", "p16", "p255", "p256", "p1000", "text", "random", "halfrandom", "p65535", "p65536", "p65537"}

// Payload builds n bytes of a content class.
func Payload(n int, class string) []byte {
	b := make([]byte, n)
	period := 0
	switch class {
	case "zeros":
		return b
	case "p1":
		for i := range b {
			b[i] = 0xAB
		}
		return b
	case "p2":
		period = 2
	case "p3":
		period = 3
	case "p7":
		period = 7
	case "p16":
		period = 16
	case "p255":
		period = 255
	case "p256":
		period = 256
	case "p1000":
		period = 1000
	case "p65535":
		period = 65535
	case "p65536":
		period = 65536
	case "p65537":
		period = 65537
	case "text":
		return Blob(n, 't')
	case "random":
		return Blob(n, 'r')
	case "halfrandom":
		r := Blob(n, 'r')
		for i := n / 2; i < n; i++ {
			r[i] = 0x20
		}
		return r
	}
	seed := Blob(period, 'r')
	for i := range b {
		b[i] = seed[i%period]
	}
	return b
}
