// Package reflz4 is an independent reader of the LZ4 block format (lz4_Block_format.md): it walks
// the sequences of a block without decompressing through the library or its dependency. It is
// used to attribute a decompression failure to one precise cause: a match offset of 0, which the
// format forbids and which pierrec/lz4 v4.0.3 emits for a match exactly 65536 bytes back.
package reflz4

// Scan walks the sequences of block. It returns the number of bytes the block decompresses to,
// whether some match has offset 0, and whether the block is well formed otherwise.
func Scan(block []byte) (size int, zeroOffset bool, wellFormed bool) {
	i := 0
	for i < len(block) {
		tok := block[i]
		i++
		lit := int(tok >> 4)
		if lit == 15 {
			for {
				if i >= len(block) {
					return size, zeroOffset, false
				}
				b := block[i]
				i++
				lit += int(b)
				if b != 255 {
					break
				}
			}
		}
		if i+lit > len(block) {
			return size, zeroOffset, false
		}
		i += lit
		size += lit
		if i == len(block) {
			return size, zeroOffset, true // last sequence: literals only
		}
		if i+2 > len(block) {
			return size, zeroOffset, false
		}
		off := int(block[i]) | int(block[i+1])<<8
		i += 2
		if off == 0 {
			zeroOffset = true
		}
		ml := int(tok&15) + 4
		if tok&15 == 15 {
			for {
				if i >= len(block) {
					return size, zeroOffset, false
				}
				b := block[i]
				i++
				ml += int(b)
				if b != 255 {
					break
				}
			}
		}
		size += ml
	}
	return size, zeroOffset, true
}

// Decode decompresses a well-formed block (reference implementation; offsets of 0 fail).
func Decode(block []byte) ([]byte, bool) {
	var out []byte
	i := 0
	for i < len(block) {
		tok := block[i]
		i++
		lit := int(tok >> 4)
		if lit == 15 {
			for {
				if i >= len(block) {
					return nil, false
				}
				b := block[i]
				i++
				lit += int(b)
				if b != 255 {
					break
				}
			}
		}
		if i+lit > len(block) {
			return nil, false
		}
		out = append(out, block[i:i+lit]...)
		i += lit
		if i == len(block) {
			return out, true
		}
		if i+2 > len(block) {
			return nil, false
		}
		off := int(block[i]) | int(block[i+1])<<8
		i += 2
		ml := int(tok&15) + 4
		if tok&15 == 15 {
			for {
				if i >= len(block) {
					return nil, false
				}
				b := block[i]
				i++
				ml += int(b)
				if b != 255 {
					break
				}
			}
		}
		if off == 0 || off > len(out) {
			return nil, false
		}
		for k := 0; k < ml; k++ {
			out = append(out, out[len(out)-off])
		}
	}
	return out, true
}
