// Package refwire is an independent encoder of CQL native-protocol frames, written from
// specs/native_protocol_v2..v5.spec and specs/dse_protocol_v1..v2.spec (sections 2-4 and 9). It
// reads only the public fields of the frame and message structs; it calls no Flags(), Supports*(),
// LengthOf*() or codec function of the library under test.
package refwire

import (
	"fmt"
	"sort"

	"github.com/datastax/go-cassandra-native-protocol/datatype"
	"github.com/datastax/go-cassandra-native-protocol/frame"
	"github.com/datastax/go-cassandra-native-protocol/message"
	"github.com/datastax/go-cassandra-native-protocol/primitive"
)

type V = primitive.ProtocolVersion

const (
	v2   V = 2
	v3   V = 3
	v4   V = 4
	v5   V = 5
	dse1 V = 0x41
	dse2 V = 0x42
)

func isDse(v V) bool      { return v == dse1 || v == dse2 }
func ge3(v V) bool        { return v != v2 }
func ge4(v V) bool        { return v != v2 && v != v3 }
func intFlags(v V) bool   { return v == v5 || isDse(v) } // query flags are an [int] from v5 and in DSE
func hasKs(v V) bool      { return v == v5 || dse2 == v }
func hasNow(v V) bool     { return v == v5 }
func hasReasons(v V) bool { return v == v5 || isDse(v) }
func hasMdId(v V) bool    { return v == v5 || v == dse2 }

// Opt selects among the encodings the specification allows for one frame.
type Opt struct {
	// perm gives, for the i-th map with more than one entry met during encoding, the index of
	// the permutation of its (sorted) keys to use.
	perm []int
	// NoGlobalSpec writes per-column keyspace/table even when all columns share them.
	NoGlobalSpec bool
	// SpecPrefixOrder writes warnings before the custom payload (the order of the specs); false
	// writes the custom payload first.
	SpecPrefixOrder bool
	// GlobalFlagWithNoMetadata also sets Global_tables_spec (0x0001) on a Rows metadata that has
	// No_metadata (0x0004) set. The specs say that with No_metadata the metadata consists of the flags,
	// the column count and the optional paging state only, "so no <global_table_spec> nor <col_spec_i>":
	// the other bit is then irrelevant (servers answer EXECUTE with skip_metadata like this).
	GlobalFlagWithNoMetadata bool
}

type w struct {
	b     []byte
	opt   *Opt
	maps  []int // sizes of the multi-entry maps met, in order
	mapNo int
}

func (x *w) byte(b byte)     { x.b = append(x.b, b) }
func (x *w) short(s uint16)  { x.b = append(x.b, byte(s>>8), byte(s)) }
func (x *w) int(i int32)     { x.b = append(x.b, byte(i>>24), byte(i>>16), byte(i>>8), byte(i)) }
func (x *w) long(i int64)    { x.int(int32(i >> 32)); x.int(int32(i)) }
func (x *w) str(s string)    { x.short(uint16(len(s))); x.b = append(x.b, s...) }
func (x *w) lstr(s string)   { x.int(int32(len(s))); x.b = append(x.b, s...) }
func (x *w) raw(b []byte)    { x.b = append(x.b, b...) }
func (x *w) sbytes(b []byte) { x.short(uint16(len(b))); x.raw(b) }
func (x *w) bytes(b []byte) {
	if b == nil {
		x.int(-1)
		return
	}
	x.int(int32(len(b)))
	x.raw(b)
}
func (x *w) strlist(l []string) {
	x.short(uint16(len(l)))
	for _, s := range l {
		x.str(s)
	}
}

// order returns the key order to use for a map with the given keys.
func (x *w) order(keys []string) []string {
	sort.Strings(keys)
	if len(keys) < 2 {
		return keys
	}
	x.maps = append(x.maps, len(keys))
	p := 0
	if x.opt != nil && x.mapNo < len(x.opt.perm) {
		p = x.opt.perm[x.mapNo]
	}
	x.mapNo++
	// p-th permutation in lexicographic (Lehmer) order
	rest := append([]string{}, keys...)
	var out []string
	f := 1
	for i := 2; i < len(rest); i++ {
		f *= i
	}
	for n := len(rest); n > 0; n-- {
		if n > 1 {
			i := p / f
			p %= f
			out = append(out, rest[i])
			rest = append(rest[:i], rest[i+1:]...)
			if n > 2 {
				f /= n - 1
			}
		} else {
			out = append(out, rest[0])
		}
	}
	return out
}

func (x *w) value(v *primitive.Value) {
	switch v.Type {
	case primitive.ValueTypeNull:
		x.int(-1)
	case primitive.ValueTypeUnset:
		x.int(-2)
	default:
		x.bytes(v.Contents)
	}
}

func (x *w) inetaddr(ip []byte) {
	if len(ip) == 16 {
		// an IPv4 address held in 16 bytes is sent as 4 bytes
		v4in6 := true
		for i := 0; i < 10; i++ {
			if ip[i] != 0 {
				v4in6 = false
			}
		}
		if v4in6 && ip[10] == 0xff && ip[11] == 0xff {
			ip = ip[12:]
		}
	}
	x.byte(byte(len(ip)))
	x.raw(ip)
}

func typeCode(t *datatype.PrimitiveType) uint16 {
	switch t {
	case datatype.Ascii:
		return 0x01
	case datatype.Bigint:
		return 0x02
	case datatype.Blob:
		return 0x03
	case datatype.Boolean:
		return 0x04
	case datatype.Counter:
		return 0x05
	case datatype.Decimal:
		return 0x06
	case datatype.Double:
		return 0x07
	case datatype.Float:
		return 0x08
	case datatype.Int:
		return 0x09
	case datatype.Timestamp:
		return 0x0B
	case datatype.Uuid:
		return 0x0C
	case datatype.Varchar:
		return 0x0D
	case datatype.Varint:
		return 0x0E
	case datatype.Timeuuid:
		return 0x0F
	case datatype.Inet:
		return 0x10
	case datatype.Date:
		return 0x11
	case datatype.Time:
		return 0x12
	case datatype.Smallint:
		return 0x13
	case datatype.Tinyint:
		return 0x14
	case datatype.Duration:
		return 0x15
	}
	panic(fmt.Sprintf("refwire: unknown primitive type %v", t))
}

func (x *w) option(t datatype.DataType) {
	switch d := t.(type) {
	case *datatype.PrimitiveType:
		x.short(typeCode(d))
	case *datatype.Custom:
		x.short(0x0000)
		x.str(d.ClassName)
	case *datatype.List:
		x.short(0x0020)
		x.option(d.ElementType)
	case *datatype.Map:
		x.short(0x0021)
		x.option(d.KeyType)
		x.option(d.ValueType)
	case *datatype.Set:
		x.short(0x0022)
		x.option(d.ElementType)
	case *datatype.UserDefined:
		x.short(0x0030)
		x.str(d.Keyspace)
		x.str(d.Name)
		x.short(uint16(len(d.FieldTypes)))
		for i := range d.FieldTypes {
			x.str(d.FieldNames[i])
			x.option(d.FieldTypes[i])
		}
	case *datatype.Tuple:
		x.short(0x0031)
		x.short(uint16(len(d.FieldTypes)))
		for _, f := range d.FieldTypes {
			x.option(f)
		}
	default:
		panic(fmt.Sprintf("refwire: unknown data type %T", t))
	}
}

func sameTable(cols []*message.ColumnMetadata) bool {
	if len(cols) == 0 {
		return false
	}
	for _, c := range cols[1:] {
		if c.Keyspace != cols[0].Keyspace || c.Table != cols[0].Table {
			return false
		}
	}
	return true
}

func (x *w) colspecs(cols []*message.ColumnMetadata, global bool) {
	if global {
		x.str(cols[0].Keyspace)
		x.str(cols[0].Table)
	}
	for _, c := range cols {
		if !global {
			x.str(c.Keyspace)
			x.str(c.Table)
		}
		x.str(c.Name)
		x.option(c.Type)
	}
}

func (x *w) rowsMetadata(m *message.RowsMetadata, v V) {
	var flags uint32
	global := sameTable(m.Columns) && !(x.opt != nil && x.opt.NoGlobalSpec)
	if len(m.Columns) == 0 {
		flags |= 0x0004 // no metadata
		if x.opt != nil && x.opt.GlobalFlagWithNoMetadata {
			flags |= 0x0001
		}
	} else if global {
		flags |= 0x0001
	}
	if m.PagingState != nil {
		flags |= 0x0002
	}
	if m.NewResultMetadataId != nil {
		flags |= 0x0008
	}
	if m.ContinuousPageNumber > 0 {
		flags |= 0x40000000
		if m.LastContinuousPage {
			flags |= 0x80000000
		}
	}
	x.int(int32(flags))
	x.int(m.ColumnCount)
	if m.PagingState != nil {
		x.bytes(m.PagingState)
	}
	if m.NewResultMetadataId != nil {
		x.sbytes(m.NewResultMetadataId)
	}
	if m.ContinuousPageNumber > 0 {
		x.int(m.ContinuousPageNumber)
	}
	if len(m.Columns) > 0 {
		x.colspecs(m.Columns, global)
	}
}

func (x *w) queryParams(o *message.QueryOptions, v V) {
	x.short(uint16(o.Consistency))
	var flags uint32
	named := o.PositionalValues == nil && o.NamedValues != nil
	if o.PositionalValues != nil || named {
		flags |= 0x01
	}
	if o.SkipMetadata {
		flags |= 0x02
	}
	if o.PageSize > 0 {
		flags |= 0x04
	}
	if o.PagingState != nil {
		flags |= 0x08
	}
	if o.SerialConsistency != nil {
		flags |= 0x10
	}
	if o.DefaultTimestamp != nil {
		flags |= 0x20
	}
	if named {
		flags |= 0x40
	}
	if o.Keyspace != "" {
		flags |= 0x80
	}
	if o.NowInSeconds != nil {
		flags |= 0x100
	}
	if o.PageSize > 0 && o.PageSizeInBytes {
		flags |= 0x40000000
	}
	if o.ContinuousPagingOptions != nil {
		flags |= 0x80000000
	}
	if intFlags(v) {
		x.int(int32(flags))
	} else {
		x.byte(byte(flags))
	}
	if o.PositionalValues != nil {
		x.short(uint16(len(o.PositionalValues)))
		for _, val := range o.PositionalValues {
			x.value(val)
		}
	} else if named {
		var keys []string
		for k := range o.NamedValues {
			keys = append(keys, k)
		}
		x.short(uint16(len(keys)))
		for _, k := range x.order(keys) {
			x.str(k)
			x.value(o.NamedValues[k])
		}
	}
	if o.PageSize > 0 {
		x.int(o.PageSize)
	}
	if o.PagingState != nil {
		x.bytes(o.PagingState)
	}
	if o.SerialConsistency != nil {
		x.short(uint16(*o.SerialConsistency))
	}
	if o.DefaultTimestamp != nil {
		x.long(*o.DefaultTimestamp)
	}
	if o.Keyspace != "" {
		x.str(o.Keyspace)
	}
	if o.NowInSeconds != nil {
		x.int(*o.NowInSeconds)
	}
	if c := o.ContinuousPagingOptions; c != nil {
		x.int(c.MaxPages)
		x.int(c.PagesPerSecond)
		if v == dse2 {
			x.int(c.NextPages)
		}
	}
}

func (x *w) schemaChange(ct primitive.SchemaChangeType, tg primitive.SchemaChangeTarget, ks, obj string, args []string, v V) {
	x.str(string(ct))
	if !ge3(v) {
		// v2: <change><keyspace><table>, table empty for keyspace changes
		x.str(ks)
		x.str(obj)
		return
	}
	x.str(string(tg))
	x.str(ks)
	switch tg {
	case primitive.SchemaChangeTargetKeyspace:
	case primitive.SchemaChangeTargetTable, primitive.SchemaChangeTargetType:
		x.str(obj)
	default:
		x.str(obj)
		x.strlist(args)
	}
}

func (x *w) reasons(rs []*primitive.FailureReason) {
	x.int(int32(len(rs)))
	for _, r := range rs {
		x.inetaddr(r.Endpoint)
		x.short(uint16(r.Code))
	}
}

func (x *w) message(m message.Message, v V) {
	switch msg := m.(type) {
	case *message.Startup:
		var keys []string
		for k := range msg.Options {
			keys = append(keys, k)
		}
		x.short(uint16(len(keys)))
		for _, k := range x.order(keys) {
			x.str(k)
			x.str(msg.Options[k])
		}
	case *message.Options, *message.Ready:
	case *message.Authenticate:
		x.str(msg.Authenticator)
	case *message.Supported:
		var keys []string
		for k := range msg.Options {
			keys = append(keys, k)
		}
		x.short(uint16(len(keys)))
		for _, k := range x.order(keys) {
			x.str(k)
			x.strlist(msg.Options[k])
		}
	case *message.Query:
		x.lstr(msg.Query)
		x.queryParams(msg.Options, v)
	case *message.Prepare:
		x.lstr(msg.Query)
		if hasKs(v) {
			if msg.Keyspace != "" {
				x.int(0x01)
				x.str(msg.Keyspace)
			} else {
				x.int(0)
			}
		}
	case *message.Execute:
		x.sbytes(msg.QueryId)
		if hasMdId(v) {
			x.sbytes(msg.ResultMetadataId)
		}
		x.queryParams(msg.Options, v)
	case *message.Batch:
		x.byte(byte(msg.Type))
		x.short(uint16(len(msg.Children)))
		for _, c := range msg.Children {
			if c.Query != "" {
				x.byte(0)
				x.lstr(c.Query)
			} else {
				x.byte(1)
				x.sbytes(c.Id)
			}
			x.short(uint16(len(c.Values)))
			for _, val := range c.Values {
				x.value(val)
			}
		}
		x.short(uint16(msg.Consistency))
		if ge3(v) {
			var flags uint32
			if msg.SerialConsistency != nil {
				flags |= 0x10
			}
			if msg.DefaultTimestamp != nil {
				flags |= 0x20
			}
			if msg.Keyspace != "" {
				flags |= 0x80
			}
			if msg.NowInSeconds != nil {
				flags |= 0x100
			}
			if intFlags(v) {
				x.int(int32(flags))
			} else {
				x.byte(byte(flags))
			}
			if msg.SerialConsistency != nil {
				x.short(uint16(*msg.SerialConsistency))
			}
			if msg.DefaultTimestamp != nil {
				x.long(*msg.DefaultTimestamp)
			}
			if msg.Keyspace != "" {
				x.str(msg.Keyspace)
			}
			if msg.NowInSeconds != nil {
				x.int(*msg.NowInSeconds)
			}
		}
	case *message.Register:
		x.short(uint16(len(msg.EventTypes)))
		for _, e := range msg.EventTypes {
			x.str(string(e))
		}
	case *message.AuthResponse:
		x.bytes(msg.Token)
	case *message.AuthChallenge:
		x.bytes(msg.Token)
	case *message.AuthSuccess:
		x.bytes(msg.Token)
	case *message.Revise:
		x.int(int32(msg.RevisionType))
		x.int(msg.TargetStreamId)
		if msg.RevisionType == 2 { // MORE_CONTINUOUS_PAGES
			x.int(msg.NextPages)
		}
	case message.Error:
		x.errorMsg(msg, v)
	case *message.VoidResult:
		x.int(1)
	case *message.RowsResult:
		x.int(2)
		x.rowsMetadata(msg.Metadata, v)
		x.int(int32(len(msg.Data)))
		for _, row := range msg.Data {
			for _, cell := range row {
				x.bytes(cell)
			}
		}
	case *message.SetKeyspaceResult:
		x.int(3)
		x.str(msg.Keyspace)
	case *message.PreparedResult:
		x.int(4)
		x.sbytes(msg.PreparedQueryId)
		if hasMdId(v) {
			x.sbytes(msg.ResultMetadataId)
		}
		vm := msg.VariablesMetadata
		var flags int32
		global := sameTable(vm.Columns) && !(x.opt != nil && x.opt.NoGlobalSpec)
		if global {
			flags |= 0x01
		}
		x.int(flags)
		x.int(int32(len(vm.Columns)))
		if ge4(v) {
			x.int(int32(len(vm.PkIndices)))
			for _, i := range vm.PkIndices {
				x.short(i)
			}
		}
		if len(vm.Columns) > 0 {
			x.colspecs(vm.Columns, global)
		}
		x.rowsMetadata(msg.ResultMetadata, v)
	case *message.SchemaChangeResult:
		x.int(5)
		x.schemaChange(msg.ChangeType, msg.Target, msg.Keyspace, msg.Object, msg.Arguments, v)
	case *message.SchemaChangeEvent:
		x.str("SCHEMA_CHANGE")
		x.schemaChange(msg.ChangeType, msg.Target, msg.Keyspace, msg.Object, msg.Arguments, v)
	case *message.StatusChangeEvent:
		x.str("STATUS_CHANGE")
		x.str(string(msg.ChangeType))
		x.inetaddr(msg.Address.Addr)
		x.int(msg.Address.Port)
	case *message.TopologyChangeEvent:
		x.str("TOPOLOGY_CHANGE")
		x.str(string(msg.ChangeType))
		x.inetaddr(msg.Address.Addr)
		x.int(msg.Address.Port)
	default:
		panic(fmt.Sprintf("refwire: unknown message %T", m))
	}
}

func (x *w) errorMsg(e message.Error, v V) {
	code := map[string]int32{"*message.ServerError": 0x0000, "*message.ProtocolError": 0x000A, "*message.AuthenticationError": 0x0100, "*message.Unavailable": 0x1000, "*message.Overloaded": 0x1001, "*message.IsBootstrapping": 0x1002, "*message.TruncateError": 0x1003, "*message.WriteTimeout": 0x1100, "*message.ReadTimeout": 0x1200, "*message.ReadFailure": 0x1300, "*message.FunctionFailure": 0x1400, "*message.WriteFailure": 0x1500, "*message.SyntaxError": 0x2000, "*message.Unauthorized": 0x2100, "*message.Invalid": 0x2200, "*message.ConfigError": 0x2300, "*message.AlreadyExists": 0x2400, "*message.Unprepared": 0x2500}[fmt.Sprintf("%T", e)]
	x.int(code)
	switch m := e.(type) {
	case *message.ServerError:
		x.str(m.ErrorMessage)
	case *message.ProtocolError:
		x.str(m.ErrorMessage)
	case *message.AuthenticationError:
		x.str(m.ErrorMessage)
	case *message.Overloaded:
		x.str(m.ErrorMessage)
	case *message.IsBootstrapping:
		x.str(m.ErrorMessage)
	case *message.TruncateError:
		x.str(m.ErrorMessage)
	case *message.SyntaxError:
		x.str(m.ErrorMessage)
	case *message.Unauthorized:
		x.str(m.ErrorMessage)
	case *message.Invalid:
		x.str(m.ErrorMessage)
	case *message.ConfigError:
		x.str(m.ErrorMessage)
	case *message.Unavailable:
		x.str(m.ErrorMessage)
		x.short(uint16(m.Consistency))
		x.int(m.Required)
		x.int(m.Alive)
	case *message.WriteTimeout:
		x.str(m.ErrorMessage)
		x.short(uint16(m.Consistency))
		x.int(m.Received)
		x.int(m.BlockFor)
		x.str(string(m.WriteType))
		if v == v5 && m.WriteType == "CAS" {
			x.short(m.Contentions)
		}
	case *message.ReadTimeout:
		x.str(m.ErrorMessage)
		x.short(uint16(m.Consistency))
		x.int(m.Received)
		x.int(m.BlockFor)
		x.byte(b2i(m.DataPresent))
	case *message.ReadFailure:
		x.str(m.ErrorMessage)
		x.short(uint16(m.Consistency))
		x.int(m.Received)
		x.int(m.BlockFor)
		if hasReasons(v) {
			x.reasons(m.FailureReasons)
		} else {
			x.int(m.NumFailures)
		}
		x.byte(b2i(m.DataPresent))
	case *message.WriteFailure:
		x.str(m.ErrorMessage)
		x.short(uint16(m.Consistency))
		x.int(m.Received)
		x.int(m.BlockFor)
		if hasReasons(v) {
			x.reasons(m.FailureReasons)
		} else {
			x.int(m.NumFailures)
		}
		x.str(string(m.WriteType))
	case *message.FunctionFailure:
		x.str(m.ErrorMessage)
		x.str(m.Keyspace)
		x.str(m.Function)
		x.strlist(m.Arguments)
	case *message.AlreadyExists:
		x.str(m.ErrorMessage)
		x.str(m.Keyspace)
		x.str(m.Table)
	case *message.Unprepared:
		x.str(m.ErrorMessage)
		x.sbytes(m.Id)
	}
}

func b2i(b bool) byte {
	if b {
		return 1
	}
	return 0
}

var opcodes = map[string]byte{"*message.Startup": 0x01, "*message.Ready": 0x02, "*message.Authenticate": 0x03, "*message.Options": 0x05, "*message.Supported": 0x06, "*message.Query": 0x07, "*message.Prepare": 0x09, "*message.Execute": 0x0A, "*message.Register": 0x0B, "*message.Batch": 0x0D, "*message.AuthChallenge": 0x0E, "*message.AuthResponse": 0x0F, "*message.AuthSuccess": 0x10, "*message.Revise": 0xFF,
	"*message.VoidResult": 0x08, "*message.RowsResult": 0x08, "*message.SetKeyspaceResult": 0x08, "*message.PreparedResult": 0x08, "*message.SchemaChangeResult": 0x08,
	"*message.SchemaChangeEvent": 0x0C, "*message.StatusChangeEvent": 0x0C, "*message.TopologyChangeEvent": 0x0C}

var requests = map[byte]bool{0x01: true, 0x05: true, 0x07: true, 0x09: true, 0x0A: true, 0x0B: true, 0x0D: true, 0x0F: true, 0xFF: true}

// Opcode returns the specification's opcode of a message and whether it is a request.
func Opcode(m message.Message) (byte, bool) {
	if _, isErr := m.(message.Error); isErr {
		return 0x00, false
	}
	op := opcodes[fmt.Sprintf("%T", m)]
	return op, requests[op]
}

// encodeOne encodes the frame (uncompressed) with the choices of opt; it returns the bytes and
// the sizes of the multi-entry maps it met.
func encodeOne(f *frame.Frame, opt *Opt) ([]byte, []int) {
	v := f.Header.Version
	body := &w{opt: opt}
	op, isReq := Opcode(f.Body.Message)
	flags := byte(f.Header.Flags)
	if !isReq && flags&0x02 != 0 {
		body.raw(f.Body.TracingId[:])
	}
	writeWarnings := func() {
		if flags&0x08 != 0 && !isReq {
			body.strlist(f.Body.Warnings)
		}
	}
	writePayload := func() {
		if flags&0x04 != 0 {
			var keys []string
			for k := range f.Body.CustomPayload {
				keys = append(keys, k)
			}
			body.short(uint16(len(keys)))
			for _, k := range body.order(keys) {
				body.str(k)
				body.bytes(f.Body.CustomPayload[k])
			}
		}
	}
	if opt != nil && opt.SpecPrefixOrder {
		writeWarnings()
		writePayload()
	} else {
		writePayload()
		writeWarnings()
	}
	body.message(f.Body.Message, v)
	h := &w{}
	vb := byte(v)
	if !isReq {
		vb |= 0x80
	}
	h.byte(vb)
	h.byte(flags)
	if v == v2 {
		h.byte(byte(int8(f.Header.StreamId)))
	} else {
		h.short(uint16(f.Header.StreamId))
	}
	h.byte(op)
	h.int(int32(len(body.b)))
	return append(h.b, body.b...), body.maps
}

func fact(n int) int {
	f := 1
	for i := 2; i <= n; i++ {
		f *= i
	}
	return f
}

// EncodeAll returns every encoding of the (uncompressed) frame that differs only in the order
// of map entries, for the given choice of the other options. Maps of more than 3 entries use
// sorted order only.
func EncodeAll(f *frame.Frame, base Opt) [][]byte {
	first, maps := encodeOne(f, &Opt{NoGlobalSpec: base.NoGlobalSpec, SpecPrefixOrder: base.SpecPrefixOrder, GlobalFlagWithNoMetadata: base.GlobalFlagWithNoMetadata})
	out := [][]byte{first}
	if len(maps) == 0 {
		return out
	}
	sizes := make([]int, len(maps))
	total := 1
	for i, n := range maps {
		sizes[i] = 1
		if n <= 3 {
			sizes[i] = fact(n)
		}
		total *= sizes[i]
	}
	for k := 1; k < total; k++ {
		perm := make([]int, len(maps))
		x := k
		for i := range maps {
			perm[i] = x % sizes[i]
			x /= sizes[i]
		}
		b, _ := encodeOne(f, &Opt{perm: perm, NoGlobalSpec: base.NoGlobalSpec, SpecPrefixOrder: base.SpecPrefixOrder, GlobalFlagWithNoMetadata: base.GlobalFlagWithNoMetadata})
		out = append(out, b)
	}
	return out
}
