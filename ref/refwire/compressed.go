package refwire

import "encoding/binary"

// Compressed bodies written from the format descriptions, independently of the compressors under test:
// the simplest valid streams, which consist of literals only. A decompressor has to accept them; the
// library's own compressors never emit them for compressible data.
//
// LZ4 (native protocol: a 4-byte big-endian uncompressed length, then one LZ4 block): a block that is a
// single sequence "token, [literal length bytes], literals" with no match part, which is how every LZ4
// block ends. Snappy: the uncompressed length as a varint, then literal elements (tag 00) of at most
// 60 bytes, whose length-minus-one sits in the upper six bits of the tag byte.

// LZ4Literal returns body compressed the protocol's LZ4 way, as one literal-only block.
func LZ4Literal(body []byte) []byte {
	out := make([]byte, 4, len(body)+16)
	binary.BigEndian.PutUint32(out, uint32(len(body)))
	n := len(body)
	if n < 15 {
		out = append(out, byte(n<<4))
	} else {
		out = append(out, 0xF0)
		for rest := n - 15; ; rest -= 255 {
			if rest < 255 {
				out = append(out, byte(rest))
				break
			}
			out = append(out, 255)
		}
	}
	return append(out, body...)
}

// SnappyLiteral returns body as a Snappy stream of literal elements only.
func SnappyLiteral(body []byte) []byte {
	var out []byte
	for n := uint64(len(body)); ; n >>= 7 {
		if n < 0x80 {
			out = append(out, byte(n))
			break
		}
		out = append(out, byte(n)|0x80)
	}
	for len(body) > 0 {
		k := len(body)
		if k > 60 {
			k = 60
		}
		out = append(out, byte(k-1)<<2)
		out = append(out, body[:k]...)
		body = body[k:]
	}
	return out
}

// WithCompressedBody takes a reference encoding of an uncompressed frame (header of hl bytes) and
// returns the same frame with the COMPRESSED flag (0x01) set and its body replaced by comp(body).
func WithCompressedBody(wire []byte, hl int, comp func([]byte) []byte) []byte {
	body := comp(wire[hl:])
	out := append([]byte{}, wire[:hl]...)
	out[1] |= 0x01
	binary.BigEndian.PutUint32(out[hl-4:hl], uint32(len(body)))
	return append(out, body...)
}
