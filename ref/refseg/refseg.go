// Package refseg is an independent implementation of the v5 segment framing (native_protocol_v5
// spec section 2.1-2.2): header bit packing, Cassandra's CRC-24 and the seeded CRC-32, all computed
// bit by bit. It shares no code with the library's segment and crc packages.
package refseg

const MaxPayload = 131071

// Crc24 computes Cassandra's header CRC over the n low-order bytes of data, least significant
// byte first: initial value 0x875060, polynomial 0x1974F0B, no reflection, no final xor.
func Crc24(data uint64, n int) uint32 {
	reg := uint32(0x875060)
	for i := 0; i < n; i++ {
		b := byte(data >> (8 * uint(i)))
		for bit := 7; bit >= 0; bit-- {
			in := uint32(b>>uint(bit)) & 1
			top := (reg >> 23) & 1
			reg = (reg << 1) & 0xFFFFFF
			if top^in == 1 {
				reg ^= 0x974F0B // the polynomial without its leading (x^24) term
			}
		}
	}
	return reg
}

// Crc32 is the IEEE CRC-32 (reflected, polynomial 0xEDB88320, initial and final inversion) of
// the seed bytes FA 2D 55 CA followed by data.
func Crc32(data []byte) uint32 {
	reg := ^uint32(0)
	feed := func(b byte) {
		for bit := 0; bit < 8; bit++ {
			in := uint32(b>>uint(bit)) & 1
			if (reg&1)^in == 1 {
				reg = (reg >> 1) ^ 0xEDB88320
			} else {
				reg >>= 1
			}
		}
	}
	for _, b := range []byte{0xFA, 0x2D, 0x55, 0xCA} {
		feed(b)
	}
	for _, b := range data {
		feed(b)
	}
	return ^reg
}

func le(v uint64, n int) []byte {
	out := make([]byte, n)
	for i := range out {
		out[i] = byte(v >> (8 * uint(i)))
	}
	return out
}

// HeaderUncompressed: 17 bits payload length, 1 bit self-contained flag, 6 bits padding; 3 bytes
// little endian followed by the 3-byte little-endian CRC-24.
func HeaderUncompressed(payloadLen int, selfContained bool) []byte {
	v := uint64(payloadLen)
	if selfContained {
		v |= 1 << 17
	}
	return append(le(v, 3), le(uint64(Crc24(v, 3)), 3)...)
}

// HeaderCompressed: 17 bits compressed length, 17 bits uncompressed length, 1 bit flag, 5 bits
// padding; 5 bytes little endian + CRC-24.
func HeaderCompressed(compressedLen, uncompressedLen int, selfContained bool) []byte {
	v := uint64(compressedLen) | uint64(uncompressedLen)<<17
	if selfContained {
		v |= 1 << 34
	}
	return append(le(v, 5), le(uint64(Crc24(v, 5)), 3)...)
}

// Uncompressed encodes a whole segment without compression.
func Uncompressed(payload []byte, selfContained bool) []byte {
	out := HeaderUncompressed(len(payload), selfContained)
	out = append(out, payload...)
	return append(out, le(uint64(Crc32(payload)), 4)...)
}

// Compressed encodes a segment for a connection with compression: transmitted is the payload as
// sent (compressed block, or the raw payload when uncompressedLen == 0 signals the fallback).
func Compressed(transmitted []byte, uncompressedLen int, selfContained bool) []byte {
	out := HeaderCompressed(len(transmitted), uncompressedLen, selfContained)
	out = append(out, transmitted...)
	return append(out, le(uint64(Crc32(transmitted)), 4)...)
}

// ParseCompressedHeader splits the 8 header bytes of a compressed-format segment.
func ParseCompressedHeader(b []byte) (compressedLen, uncompressedLen int, selfContained bool, crc uint32, padding uint64) {
	var v uint64
	for i := 0; i < 5; i++ {
		v |= uint64(b[i]) << (8 * uint(i))
	}
	crc = uint32(b[5]) | uint32(b[6])<<8 | uint32(b[7])<<16
	return int(v & 0x1FFFF), int((v >> 17) & 0x1FFFF), (v>>34)&1 == 1, crc, v >> 35
}
