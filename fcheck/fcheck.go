// Package fcheck runs a function over every generated frame on all cores and provides the
// comparison conventions shared by the frame-level checks (C01, C02, C03, C05).
package fcheck

import (
	"runtime"
	"strings"
	"sync"
	"sync/atomic"

	"github.com/datastax/go-cassandra-native-protocol/client"
	"github.com/datastax/go-cassandra-native-protocol/frame"
	"github.com/datastax/go-cassandra-native-protocol/primitive"

	"verif/gen"
	"verif/ref/reflz4"
	"verif/vlib"
)

// Ignore lists the struct fields that are computed or not transmitted.
var Ignore = map[string]bool{"Header.BodyLength": true, "ColumnMetadata.Index": true}

// Opts returns the enumeration bounds of the tier.
func Opts(c *vlib.Check) gen.Opts {
	if c.Thorough() {
		return gen.Opts{D: 3, Thorough: true, TypeDepth: 2}
	}
	return gen.Opts{D: 2, Thorough: false, TypeDepth: 2}
}

// ForEach generates all frames of all versions and calls f concurrently. It returns the number
// of frames generated.
func ForEach(c *vlib.Check, o gen.Opts, f func(cs gen.Case)) int64 {
	ch := make(chan gen.Case, 1024)
	var n int64
	var pw sync.WaitGroup
	for _, v := range gen.Versions {
		pw.Add(1)
		go func(v gen.V) {
			defer pw.Done()
			gen.Frames(v, o, func(cs gen.Case) {
				atomic.AddInt64(&n, 1)
				ch <- cs
			})
		}(v)
	}
	go func() { pw.Wait(); close(ch) }()
	var ww sync.WaitGroup
	var stop int32
	var done int64
	for i := 0; i < runtime.NumCPU(); i++ {
		ww.Add(1)
		go func() {
			defer ww.Done()
			for cs := range ch {
				if atomic.LoadInt32(&stop) != 0 {
					continue // deadline: drain what the generators still produce
				}
				if atomic.AddInt64(&done, 1)%4096 == 0 && c.Expired("the frame enumeration (frames are generated simplest first: bases, header variants, option vectors, 1, 2, then 3 deviations)") {
					atomic.StoreInt32(&stop, 1)
					continue
				}
				f(cs)
			}
		}()
	}
	ww.Wait()
	return n
}

// Compressions lists the body compressions a version allows (spec: snappy removed in v5).
func Compressions(v gen.V) []primitive.Compression {
	if v == gen.V5 {
		return []primitive.Compression{primitive.CompressionNone, primitive.CompressionLz4}
	}
	return []primitive.Compression{primitive.CompressionNone, primitive.CompressionLz4, primitive.CompressionSnappy}
}

// Codec builds a frame codec for a compression.
func Codec(comp primitive.Compression) frame.Codec {
	return frame.NewCodecWithCompression(client.NewBodyCompressor(comp))
}

// RawCodec builds a raw frame codec for a compression.
func RawCodec(comp primitive.Compression) frame.RawCodec {
	return frame.NewRawCodecWithCompression(client.NewBodyCompressor(comp))
}

// Compressible reports whether the spec allows the compressed flag on this frame.
func Compressible(f *frame.Frame) bool {
	switch f.Header.OpCode {
	case primitive.OpCodeStartup, primitive.OpCodeOptions, primitive.OpCodeReady:
		return false
	}
	return true
}

// BaseName strips the deviation suffix of a case name: "v/KIND.variant/path=alt" -> "KIND.variant".
func BaseName(name string) string {
	p := strings.SplitN(name, "/", 3)
	if len(p) >= 2 {
		return p[1]
	}
	return name
}

// PathClass removes indices and alternative numbers from a deviation path.
func PathClass(name string) string {
	p := strings.SplitN(name, "/", 3)
	if len(p) < 3 {
		return ""
	}
	s := p[2]
	var b strings.Builder
	skip := false
	for _, r := range s {
		switch {
		case r == '[':
			skip = true
		case r == ']':
			skip = false
		case r == '=':
			skip = true
		case r == ',':
			skip = false
			b.WriteRune(r)
		case !skip:
			b.WriteRune(r)
		}
	}
	return b.String()
}

// DiffClass removes indices and values from a difference path returned by gen.Equal.
func DiffClass(d string) string {
	if i := strings.Index(d, ":"); i >= 0 {
		d = d[:i]
	}
	var b strings.Builder
	skip := false
	for _, r := range d {
		switch {
		case r == '[':
			skip = true
		case r == ']':
			skip = false
		case !skip:
			b.WriteRune(r)
		}
	}
	return b.String()
}

// ErrClass reduces an error chain to its innermost message with digits removed.
func ErrClass(err error) string {
	s := err.Error()
	parts := strings.Split(s, ": ")
	if len(parts) > 3 {
		parts = parts[len(parts)-3:]
	}
	s = strings.Join(parts, ": ")
	var b strings.Builder
	for _, r := range s {
		if r >= '0' && r <= '9' {
			continue
		}
		b.WriteRune(r)
	}
	if b.Len() > 120 {
		return b.String()[:120]
	}
	return b.String()
}

// Kind is the message kind of a case name without its variant: "v/ERROR.WriteTimeout.CAS/.." -> "ERROR.WriteTimeout".
func Kind(name string) string {
	b := BaseName(name)
	p := strings.Split(b, ".")
	if len(p) > 2 {
		p = p[:2]
	}
	return strings.Join(p, ".")
}

// LZ4Cause attributes a failure of an LZ4 encoding to the compressor of the pinned dependency
// (pierrec/lz4 v4.0.3) when, and only when, the block it produced is at fault by itself: read with
// the independent format reader, the block either contains a match with offset 0 (forbidden; what
// a match exactly 65536 bytes back becomes) or decodes to something other than the input, and at
// the first wrong byte the input repeats a 4-byte sequence from 65536..65543 bytes earlier - just
// outside LZ4's match window. Anything else (a correct block mishandled by the library, a block
// damaged after compression) gets "".
func LZ4Cause(input, block []byte) string {
	const cause = "lz4-compressor-match-beyond-window"
	_, zero, ok := reflz4.Scan(block)
	if ok && zero {
		return cause
	}
	out, ok := reflz4.Decode(block)
	if !ok {
		return ""
	}
	p := 0
	for p < len(out) && p < len(input) && out[p] == input[p] {
		p++
	}
	if p == len(input) && len(out) == len(input) {
		return "" // the block is correct
	}
	// the wrong copy may have started a few bytes before the first visible difference
	for back := 0; back <= 8 && p-back >= 0; back++ {
		q := p - back
		for d := 65536; d <= 65543; d++ {
			if q-d >= 0 && q+4 <= len(input) && string(input[q:q+4]) == string(input[q-d:q-d+4]) {
				return cause
			}
		}
	}
	return ""
}
