// Package explore is the stateless schedule explorer (engine E2): depth-first enumeration of all
// choice vectors of a harness with at most B deviations from the default schedule, sharded over
// worker processes. Two cost models: "preempt" (a switch away from a still-enabled thread costs 1,
// every other non-default choice is free) and "delay" (every non-default choice costs 1).
package explore

import (
	"bufio"
	"bytes"
	"encoding/json"
	"fmt"
	"os"
	"os/exec"
	"runtime"
	"sort"
	"strings"
	"sync"
	"time"

	"github.com/datastax/go-cassandra-native-protocol/verifrt/sched"
)

// Obs is what a harness records about one execution.
type Obs struct {
	Log  []string          // observations, in order; hashed into the outcome
	Viol []Violation       // oracle failures found by the harness itself
	Vars map[string]string // free-form, shown in replays
}

func (o *Obs) Logf(format string, a ...interface{}) { o.Log = append(o.Log, fmt.Sprintf(format, a...)) }
func (o *Obs) Fail(kind, site, format string, a ...interface{}) {
	o.Viol = append(o.Viol, Violation{Kind: kind, Site: site, Msg: fmt.Sprintf(format, a...)})
}

// Violation is one property failure in one execution.
type Violation struct {
	Harness string   `json:"harness"`
	Kind    string   `json:"kind"` // panic, deadlock, leak, oracle kind...
	Site    string   `json:"site"` // failing function (never a line number)
	Msg     string   `json:"msg"`
	Choices []int    `json:"choices"`
	Trace   []string `json:"trace,omitempty"`
	Stable  bool     `json:"stable"` // reproduced identically on re-execution
	Param   string   `json:"param,omitempty"`
}

// Harness is a closed, finite multi-threaded scenario.
type Harness struct {
	Name  string
	Param string
	Arg   int    // harness parameter set per exploration (e.g. the fault position)
	Cost  string // "preempt" or "delay"
	Bound int
	// Body runs as thread 0. It must create all state afresh.
	Body func(o *Obs)
	// Judge is applied after the execution; it may add violations for panics, deadlocks and leaks
	// (the default judge reports all three).
	Judge func(o *Obs, x *sched.Exec)
	// AllowLeak / AllowDeadlock switch the default judgements off for harnesses where they are expected.
	AllowLeak bool
	// MaxSteps overrides the per-execution cap on scheduling points (long sequential histories).
	MaxSteps int
	// GlobalState: the code under test keeps package-level state that outlives an execution (caches, pools).
	// A violation may leave that state corrupted, so it is confirmed by replaying its choice vector in FRESH
	// processes instead of in this one; a violation that does not reproduce there is dropped (counted), never
	// reported.
	GlobalState bool
}

// Stats aggregates a (sub)tree exploration.
type Stats struct {
	Execs      int64            `json:"execs"`
	Steps      int64            `json:"steps"`
	MaxSteps   int              `json:"max_steps"`
	MaxThreads int              `json:"max_threads"`
	MaxDec     int              `json:"max_decisions"`
	Outcomes   map[string]int64 `json:"outcomes"`
	Viols      []Violation      `json:"viols"`
	ViolCount  int64            `json:"viol_count"`
	ViolKinds  map[string]int64 `json:"viol_kinds"`
	Sample     map[string][]int `json:"sample"`           // one choice vector per outcome (first few)
	Broken     string           `json:"broken,omitempty"` // machinery failure (nondeterminism)
	Truncated  bool             `json:"truncated,omitempty"`
	// Unconfirmed counts violations of GlobalState harnesses that did not reproduce in a fresh process (dropped)
	Unconfirmed int64 `json:"unconfirmed,omitempty"`
}

func newStats() *Stats {
	return &Stats{Outcomes: map[string]int64{}, ViolKinds: map[string]int64{}, Sample: map[string][]int{}}
}

func (s *Stats) merge(o *Stats) {
	s.Execs += o.Execs
	s.Steps += o.Steps
	s.Unconfirmed += o.Unconfirmed
	if o.MaxSteps > s.MaxSteps {
		s.MaxSteps = o.MaxSteps
	}
	if o.MaxThreads > s.MaxThreads {
		s.MaxThreads = o.MaxThreads
	}
	if o.MaxDec > s.MaxDec {
		s.MaxDec = o.MaxDec
	}
	for k, v := range o.Outcomes {
		s.Outcomes[k] += v
	}
	for k, v := range o.ViolKinds {
		s.ViolKinds[k] += v
	}
	for k, v := range o.Sample {
		if _, ok := s.Sample[k]; !ok && len(s.Sample) < 8 {
			s.Sample[k] = v
		}
	}
	s.ViolCount += o.ViolCount
	for _, v := range o.Viols {
		s.addViol(v)
	}
	if o.Broken != "" && s.Broken == "" {
		s.Broken = o.Broken
	}
	s.Truncated = s.Truncated || o.Truncated
}

// addViol keeps one representative (the one with the fewest decisions) per (kind, site).
func (s *Stats) addViol(v Violation) {
	for i, e := range s.Viols {
		if e.Kind == v.Kind && e.Site == v.Site && e.Harness == v.Harness {
			if len(v.Choices) < len(e.Choices) {
				s.Viols[i] = v
			}
			return
		}
	}
	s.Viols = append(s.Viols, v)
}

func fnv(s string) uint64 {
	h := uint64(1469598103934665603)
	for i := 0; i < len(s); i++ {
		h ^= uint64(s[i])
		h *= 1099511628211
	}
	return h
}

type runResult struct {
	x    *sched.Exec
	obs  *Obs
	viol []Violation
	out  string
}

func runOnce(h *Harness, prefix []int, trace bool) runResult {
	o := &Obs{}
	if h.MaxSteps > 0 {
		old := sched.MaxSteps
		sched.MaxSteps = h.MaxSteps
		defer func() { sched.MaxSteps = old }()
	}
	x := sched.Run(prefix, trace, func() { h.Body(o) })
	if h.Judge != nil {
		h.Judge(o, x)
	}
	if x.PanicVal != "" {
		o.Viol = append(o.Viol, Violation{Kind: "panic", Site: x.PanicFn, Msg: x.PanicVal + "\n" + x.Panic})
	}
	if x.Deadlock {
		o.Viol = append(o.Viol, Violation{Kind: "deadlock", Site: blockedSite(x), Msg: strings.Join(x.Blocked, "; ")})
	}
	if x.StepCap {
		o.Viol = append(o.Viol, Violation{Kind: "livelock", Site: "stepcap", Msg: fmt.Sprintf("execution exceeded %d scheduling points", sched.MaxSteps)})
	}
	if x.Leaked > 0 && !h.AllowLeak && x.PanicVal == "" {
		o.Viol = append(o.Viol, Violation{Kind: "leak", Site: blockedSite(x), Msg: fmt.Sprintf("%d thread(s) still alive after the harness finished and all timers ran: %s", x.Leaked, strings.Join(x.Blocked, "; "))})
	}
	for i := range o.Viol {
		o.Viol[i].Harness = h.Name
		o.Viol[i].Param = h.Param
		o.Viol[i].Choices = x.Choices()
	}
	out := strings.Join(o.Log, "|")
	return runResult{x: x, obs: o, viol: o.Viol, out: out}
}

func blockedSite(x *sched.Exec) string {
	// site = sorted set of blocked operation kinds
	set := map[string]bool{}
	for _, b := range x.Blocked {
		if i := strings.Index(b, "blocked at "); i >= 0 {
			op := b[i+len("blocked at "):]
			if j := strings.Index(op, "#"); j >= 0 {
				op = op[:j]
			}
			name := ""
			if a, c := strings.Index(b, "("), strings.Index(b, ")"); a >= 0 && c > a {
				name = b[a+1 : c]
			}
			set[name+":"+op] = true
		}
	}
	var ks []string
	for k := range set {
		ks = append(ks, k)
	}
	sort.Strings(ks)
	return strings.Join(ks, ",")
}

func cost(h *Harness, d sched.Decision, alt int) int {
	if alt == 0 {
		return 0
	}
	if h.Cost == "delay" {
		return 1
	}
	if d.Kind == 't' && d.CurEnabled {
		return 1
	}
	return 0
}

// children lists the unexplored sibling prefixes below an executed prefix.
func children(h *Harness, x *sched.Exec, plen int) [][]int {
	var out [][]int
	used := 0
	for i := 0; i < len(x.Decisions); i++ {
		d := x.Decisions[i]
		if i >= plen {
			for alt := 1; alt < d.N; alt++ {
				if used+cost(h, d, alt) > h.Bound {
					continue
				}
				np := make([]int, i+1)
				for j := 0; j < i; j++ {
					np[j] = x.Decisions[j].Chosen
				}
				np[i] = alt
				out = append(out, np)
			}
		}
		used += cost(h, d, d.Chosen)
	}
	return out
}

func record(st *Stats, h *Harness, r runResult, prefix []int) {
	st.Execs++
	st.Steps += int64(r.x.Steps)
	if r.x.Steps > st.MaxSteps {
		st.MaxSteps = r.x.Steps
	}
	if r.x.Threads > st.MaxThreads {
		st.MaxThreads = r.x.Threads
	}
	if len(r.x.Decisions) > st.MaxDec {
		st.MaxDec = len(r.x.Decisions)
	}
	if r.x.Diverged != "" {
		st.Broken = fmt.Sprintf("harness %s: %s (prefix %v)", h.Name, r.x.Diverged, prefix)
		return
	}
	key := fmt.Sprintf("%016x", fnv(r.out))
	st.Outcomes[key]++
	if _, ok := st.Sample[key]; !ok && len(st.Sample) < 8 {
		st.Sample[key] = r.x.Choices()
	}
	for _, v := range r.viol {
		st.ViolCount++
		st.ViolKinds[v.Kind+"@"+v.Site]++
		known := false
		for _, e := range st.Viols {
			if e.Kind == v.Kind && e.Site == v.Site && len(e.Choices) <= len(v.Choices) {
				known = true
			}
		}
		if known {
			continue
		}
		if h.GlobalState {
			if confirmFresh(h, v, r.x.TraceHash) {
				v.Stable = true
				v.Trace = r.x.Trace
				st.addViol(v)
			} else {
				st.Unconfirmed++
			}
			continue
		}
		// confirm: the same choice vector must reproduce the same violation and the same trace hash
		v.Stable = true
		for k := 0; k < 4; k++ {
			r2 := runOnce(h, v.Choices, k == 0)
			same := r2.x.TraceHash == r.x.TraceHash
			found := false
			for _, v2 := range r2.viol {
				if v2.Kind == v.Kind && v2.Site == v.Site {
					found = true
				}
			}
			if !same || !found {
				v.Stable = false
				st.Broken = fmt.Sprintf("harness %s: violation %s@%s did not reproduce on re-execution of %v (trace hash %x vs %x)", h.Name, v.Kind, v.Site, v.Choices, r.x.TraceHash, r2.x.TraceHash)
			}
			if k == 0 {
				v.Trace = r2.x.Trace
				if len(v.Trace) > 400 {
					v.Trace = v.Trace[len(v.Trace)-400:]
				}
			}
		}
		st.addViol(v)
	}
}

// confirmFresh replays a choice vector twice, each time in a new process (sub-command "confirm"), and
// reports whether both runs show the same kind of violation at the same site with the same trace hash.
func confirmFresh(h *Harness, v Violation, hash uint64) bool {
	cj, _ := json.Marshal(v.Choices)
	for k := 0; k < 2; k++ {
		cmd := exec.Command(os.Args[0], "confirm", h.Name, fmt.Sprint(CurrentArg), string(cj))
		cmd.Env = append(os.Environ(), "GOMAXPROCS=1")
		out, err := cmd.Output()
		if err != nil {
			return false
		}
		var got struct {
			Hash  uint64   `json:"hash"`
			Kinds []string `json:"kinds"`
		}
		if json.Unmarshal(bytes.TrimSpace(out), &got) != nil || got.Hash != hash {
			return false
		}
		found := false
		for _, k := range got.Kinds {
			if k == v.Kind+"@"+v.Site {
				found = true
			}
		}
		if !found {
			return false
		}
	}
	return true
}

// ConfirmMain is the "confirm" sub-command: argv = confirm <harness> <arg> <choices json>.
func ConfirmMain(args []string) {
	h := registry[args[0]]
	if h == nil {
		fmt.Println("{}")
		return
	}
	fmt.Sscan(args[1], &CurrentArg)
	var choices []int
	_ = json.Unmarshal([]byte(args[2]), &choices)
	r := runOnce(h, choices, false)
	var kinds []string
	for _, v := range r.viol {
		kinds = append(kinds, v.Kind+"@"+v.Site)
	}
	b, _ := json.Marshal(map[string]interface{}{"hash": r.x.TraceHash, "kinds": kinds})
	fmt.Println(string(b))
}

// subtree explores prefix and everything below it, depth first.
func subtree(h *Harness, prefix []int, st *Stats, deadline time.Time) {
	stack := [][]int{prefix}
	for len(stack) > 0 {
		p := stack[len(stack)-1]
		stack = stack[:len(stack)-1]
		if !deadline.IsZero() && st.Execs%256 == 0 && time.Now().After(deadline) {
			st.Truncated = true
			return
		}
		r := runOnce(h, p, false)
		record(st, h, r, p)
		if st.Broken != "" {
			return
		}
		ch := children(h, r.x, len(p))
		for i := len(ch) - 1; i >= 0; i-- {
			stack = append(stack, ch[i])
		}
	}
}

// ---------------------------------------------------------------------------------------------
// worker protocol: one JSON request per line on stdin, one JSON reply per line on stdout.

type req struct {
	Harness  string `json:"h"`
	Prefix   []int  `json:"p"`
	Mode     string `json:"m"` // "expand" | "subtree" | "replay"
	Bound    int    `json:"b"`
	Arg      int    `json:"a"`
	Deadline int64  `json:"d"` // unix seconds, 0 = none
}

type resp struct {
	Stats    *Stats  `json:"stats"`
	Children [][]int `json:"children,omitempty"`
	Hash     uint64  `json:"hash,omitempty"`
}

// CurrentArg is the Arg of the exploration in progress (read by harness bodies).
var CurrentArg int

// Registry of harnesses, by name.
var registry = map[string]*Harness{}

func Register(h *Harness) {
	if _, dup := registry[h.Name]; dup {
		panic("duplicate harness " + h.Name)
	}
	registry[h.Name] = h
}

// IsWorker reports whether this process was started as an exploration worker.
func IsWorker() bool { return len(os.Args) > 1 && os.Args[1] == "-explore-worker" }

// WorkerMain serves requests until stdin closes.
func WorkerMain() {
	in := bufio.NewReaderSize(os.Stdin, 1<<20)
	out := bufio.NewWriter(os.Stdout)
	dec := json.NewDecoder(in)
	enc := json.NewEncoder(out)
	for {
		var q req
		if err := dec.Decode(&q); err != nil {
			return
		}
		h0, ok := registry[q.Harness]
		if !ok {
			_ = enc.Encode(resp{Stats: &Stats{Broken: "unknown harness " + q.Harness}})
			out.Flush()
			continue
		}
		h := *h0
		h.Bound = q.Bound
		h.Arg = q.Arg
		CurrentArg = q.Arg
		st := newStats()
		var rp resp
		switch q.Mode {
		case "expand":
			r := runOnce(&h, q.Prefix, false)
			record(st, &h, r, q.Prefix)
			rp.Children = children(&h, r.x, len(q.Prefix))
			rp.Hash = r.x.TraceHash
		case "subtree":
			var dl time.Time
			if q.Deadline > 0 {
				dl = time.Unix(q.Deadline, 0)
			}
			subtree(&h, q.Prefix, st, dl)
		}
		rp.Stats = st
		_ = enc.Encode(rp)
		out.Flush()
	}
}

type worker struct {
	cmd *exec.Cmd
	enc *json.Encoder
	dec *json.Decoder
	n   int
}

func startWorker() (*worker, error) {
	cmd := exec.Command(os.Args[0], "-explore-worker")
	cmd.Stderr = os.Stderr
	cmd.Env = append(os.Environ(), "GOMAXPROCS=1")
	stdin, err := cmd.StdinPipe()
	if err != nil {
		return nil, err
	}
	stdout, err := cmd.StdoutPipe()
	if err != nil {
		return nil, err
	}
	if err := cmd.Start(); err != nil {
		return nil, err
	}
	return &worker{cmd: cmd, enc: json.NewEncoder(stdin), dec: json.NewDecoder(bufio.NewReaderSize(stdout, 1<<20))}, nil
}

func (w *worker) call(q req) (resp, error) {
	var r resp
	if err := w.enc.Encode(q); err != nil {
		return r, err
	}
	if err := w.dec.Decode(&r); err != nil {
		return r, fmt.Errorf("worker died: %v", err)
	}
	return r, nil
}

func (w *worker) stop() {
	if w.cmd.Process != nil {
		_ = w.cmd.Process.Kill()
		_, _ = w.cmd.Process.Wait()
	}
}

// Result of exploring one harness at one bound.
type Result struct {
	Harness  string
	Param    string
	Cost     string
	Bound    int
	Arg      int
	Stats    *Stats
	WallS    float64
	Complete bool
}

var w0cache *worker
var pool []*worker // subtree workers kept across Explore calls

// Explore runs harness h exhaustively up to its bound on nproc worker processes.
func Explore(h *Harness, nproc int, deadline time.Time) (*Result, error) {
	if nproc <= 0 {
		nproc = runtime.NumCPU()
	}
	t0 := time.Now()
	total := newStats()
	// determinism check of the default schedule: same trace hash twice
	// the expansion worker is kept across Explore calls (many harnesses are one schedule long)
	w0 := w0cache
	w0cache = nil
	if w0 == nil {
		var err error
		if w0, err = startWorker(); err != nil {
			return nil, err
		}
	}
	keep := false
	defer func() {
		if keep && w0.n < 200000 {
			w0cache = w0
		} else {
			w0.stop()
		}
	}()
	r1, err := w0.call(req{Harness: h.Name, Mode: "expand", Bound: h.Bound, Arg: h.Arg})
	if err != nil {
		return nil, err
	}
	r2, err := w0.call(req{Harness: h.Name, Mode: "expand", Bound: h.Bound, Arg: h.Arg})
	if err != nil {
		return nil, err
	}
	if r1.Stats.Broken != "" {
		return nil, fmt.Errorf("%s", r1.Stats.Broken)
	}
	if r1.Hash != r2.Hash {
		return nil, fmt.Errorf("harness %s: default schedule is not deterministic (trace hash %x vs %x)", h.Name, r1.Hash, r2.Hash)
	}
	total.merge(r1.Stats)
	// breadth-first expansion until there is enough to share out
	queue := r1.Children
	for len(queue) > 0 && len(queue) < nproc*24 {
		p := queue[0]
		queue = queue[1:]
		r, err := w0.call(req{Harness: h.Name, Mode: "expand", Prefix: p, Bound: h.Bound, Arg: h.Arg})
		if err != nil {
			return nil, err
		}
		total.merge(r.Stats)
		if total.Broken != "" {
			return nil, fmt.Errorf("%s", total.Broken)
		}
		queue = append(queue, r.Children...)
	}
	w0.n += int(total.Execs)
	keep = true
	var mu sync.Mutex
	var wg sync.WaitGroup
	var firstErr error
	next := 0
	var dl int64
	if !deadline.IsZero() {
		dl = deadline.Unix()
	}
	if len(queue) < nproc {
		nproc = len(queue)
	}
	for i := 0; i < nproc; i++ {
		wg.Add(1)
		go func(slot int) {
			defer wg.Done()
			// workers are kept across Explore calls (fault enumeration makes thousands of small calls)
			mu.Lock()
			for len(pool) <= slot {
				pool = append(pool, nil)
			}
			w := pool[slot]
			pool[slot] = nil
			mu.Unlock()
			if w == nil {
				var err error
				if w, err = startWorker(); err != nil {
					mu.Lock()
					firstErr = err
					mu.Unlock()
					return
				}
			}
			ok := false
			defer func() {
				if ok && w.n <= 200000 {
					mu.Lock()
					pool[slot] = w
					mu.Unlock()
				} else {
					w.stop()
				}
			}()
			for {
				mu.Lock()
				if next >= len(queue) || firstErr != nil {
					ok = firstErr == nil
					mu.Unlock()
					return
				}
				p := queue[next]
				next++
				mu.Unlock()
				r, err := w.call(req{Harness: h.Name, Mode: "subtree", Prefix: p, Bound: h.Bound, Deadline: dl, Arg: h.Arg})
				mu.Lock()
				if err != nil {
					firstErr = fmt.Errorf("harness %s prefix %v: %v", h.Name, p, err)
					mu.Unlock()
					return
				}
				total.merge(r.Stats)
				mu.Unlock()
				w.n += int(r.Stats.Execs)
				if w.n > 200000 { // recycle: threads parked by aborted executions are reclaimed, but be safe
					w.stop()
					if w, err = startWorker(); err != nil {
						mu.Lock()
						firstErr = err
						mu.Unlock()
						return
					}
				}
			}
		}(i)
	}
	wg.Wait()
	if firstErr != nil {
		return nil, firstErr
	}
	if total.Broken != "" {
		return nil, fmt.Errorf("%s", total.Broken)
	}
	return &Result{Harness: h.Name, Param: h.Param, Cost: h.Cost, Bound: h.Bound, Arg: h.Arg, Stats: total, WallS: time.Since(t0).Seconds(), Complete: !total.Truncated}, nil
}

// Replay runs one choice vector with a full trace (used by the replay command and by tests).
func Replay(h *Harness, choices []int) (*sched.Exec, []Violation, []string) {
	CurrentArg = h.Arg
	r := runOnce(h, choices, true)
	return r.x, r.viol, r.obs.Log
}

// Lookup returns a registered harness.
func Lookup(name string) *Harness { return registry[name] }
