// Package bfs is the explicit-state engine (E3): breadth-first search over operation histories
// of a real object. A state is identified by the canonical dump of the object; a successor is
// computed by replaying the shortest known history on a fresh instance plus one more operation
// (live objects do not clone), comparing the implementation with a reference model at every
// step. Level-synchronous, sharded over worker processes (the controlled scheduler is a
// per-process singleton).
package bfs

import (
	"bufio"
	"encoding/json"
	"fmt"
	"os"
	"os/exec"
	"runtime"
	"sort"
	"sync"
	"time"
)

// Viol is one disagreement between implementation and reference model / invariant failure.
type Viol struct {
	Kind string   `json:"kind"`
	Site string   `json:"site"`
	Msg  string   `json:"msg"`
	Path []int    `json:"path"`
	Ops  []string `json:"ops,omitempty"`
}

// Model is a finite-alphabet system: Run executes the operations numbered by path on a fresh
// instance, checks every step against the reference, and returns the canonical final state.
type Model struct {
	Name string
	// NumOps is the size of the alphabet.
	NumOps int
	// OpName renders operation i.
	OpName func(i int) string
	// Run replays path; canon=="" with dead=true means the last operation was not applicable
	// (pruned, not a state).
	Run func(path []int) (canon string, dead bool, viols []Viol)
	// MaxDepth bounds the search when the space is not finite (0 = to fixpoint).
	MaxDepth int
}

var registry = map[string]*Model{}

func Register(m *Model) { registry[m.Name] = m }

type req struct {
	Model string  `json:"m"`
	Paths [][]int `json:"p"`
}
type res struct {
	Canon string `json:"c"`
	Dead  bool   `json:"d"`
	Viols []Viol `json:"v,omitempty"`
}
type resp struct {
	R   []res  `json:"r"`
	Err string `json:"e,omitempty"`
}

func IsWorker() bool { return len(os.Args) > 1 && os.Args[1] == "-bfs-worker" }

func WorkerMain() {
	dec := json.NewDecoder(bufio.NewReaderSize(os.Stdin, 1<<20))
	out := bufio.NewWriterSize(os.Stdout, 1<<20)
	enc := json.NewEncoder(out)
	for {
		var q req
		if err := dec.Decode(&q); err != nil {
			return
		}
		m := registry[q.Model]
		var rp resp
		if m == nil {
			rp.Err = "unknown model " + q.Model
		} else {
			for _, p := range q.Paths {
				c, d, v := m.Run(p)
				rp.R = append(rp.R, res{c, d, v})
			}
		}
		_ = enc.Encode(rp)
		out.Flush()
	}
}

type worker struct {
	cmd *exec.Cmd
	enc *json.Encoder
	dec *json.Decoder
}

func startWorker() (*worker, error) {
	cmd := exec.Command(os.Args[0], "-bfs-worker")
	cmd.Stderr = os.Stderr
	cmd.Env = append(os.Environ(), "GOMAXPROCS=1")
	in, err := cmd.StdinPipe()
	if err != nil {
		return nil, err
	}
	out, err := cmd.StdoutPipe()
	if err != nil {
		return nil, err
	}
	if err := cmd.Start(); err != nil {
		return nil, err
	}
	return &worker{cmd, json.NewEncoder(in), json.NewDecoder(bufio.NewReaderSize(out, 1<<20))}, nil
}

// Result of a search.
type Result struct {
	Model       string
	States      int
	Transitions int
	Depth       int
	Fixpoint    bool
	Viols       []Viol
	ViolCount   int
	Samples     [][]string
	WallS       float64
	PerDepth    []int
}

// Search explores the model breadth first.
func Search(m *Model, nproc int, deadline time.Time, maxStates int) (*Result, error) {
	if nproc <= 0 {
		nproc = runtime.NumCPU()
	}
	t0 := time.Now()
	ws := make([]*worker, nproc)
	for i := range ws {
		w, err := startWorker()
		if err != nil {
			return nil, err
		}
		ws[i] = w
		defer func(w *worker) { _ = w.cmd.Process.Kill(); _, _ = w.cmd.Process.Wait() }(w)
	}
	r := &Result{Model: m.Name}
	violSeen := map[string]bool{}
	addViols := func(vs []Viol) {
		for _, v := range vs {
			r.ViolCount++
			k := v.Kind + "@" + v.Site
			if !violSeen[k] {
				violSeen[k] = true
				for _, o := range v.Path {
					v.Ops = append(v.Ops, m.OpName(o))
				}
				r.Viols = append(r.Viols, v)
			}
		}
	}
	// initial state
	c0, _, v0 := m.Run(nil)
	addViols(v0)
	seen := map[string]bool{c0: true}
	frontier := [][]int{{}}
	r.States = 1
	r.PerDepth = append(r.PerDepth, 1)
	depth := 0
	for len(frontier) > 0 {
		if m.MaxDepth > 0 && depth >= m.MaxDepth {
			break
		}
		if !deadline.IsZero() && time.Now().After(deadline) {
			break
		}
		if maxStates > 0 && r.States >= maxStates {
			break
		}
		// tasks of this level
		var tasks [][]int
		for _, p := range frontier {
			for o := 0; o < m.NumOps; o++ {
				np := append(append(make([]int, 0, len(p)+1), p...), o)
				tasks = append(tasks, np)
			}
		}
		results := make([]res, len(tasks))
		const chunk = 64
		var mu sync.Mutex
		next := 0
		var wg sync.WaitGroup
		var ferr error
		for _, w := range ws {
			wg.Add(1)
			go func(w *worker) {
				defer wg.Done()
				for {
					mu.Lock()
					lo := next
					next += chunk
					mu.Unlock()
					if lo >= len(tasks) {
						return
					}
					hi := lo + chunk
					if hi > len(tasks) {
						hi = len(tasks)
					}
					if err := w.enc.Encode(req{Model: m.Name, Paths: tasks[lo:hi]}); err != nil {
						mu.Lock()
						ferr = err
						mu.Unlock()
						return
					}
					var rp resp
					if err := w.dec.Decode(&rp); err != nil || rp.Err != "" || len(rp.R) != hi-lo {
						mu.Lock()
						ferr = fmt.Errorf("bfs worker failed on paths %v..: %v %s", tasks[lo], err, rp.Err)
						mu.Unlock()
						return
					}
					copy(results[lo:hi], rp.R)
				}
			}(w)
		}
		wg.Wait()
		if ferr != nil {
			return nil, ferr
		}
		var nextFrontier [][]int
		for i, rs := range results {
			addViols(rs.Viols)
			if rs.Dead {
				continue
			}
			r.Transitions++
			if !seen[rs.Canon] {
				seen[rs.Canon] = true
				r.States++
				nextFrontier = append(nextFrontier, tasks[i])
				if len(r.Samples) < 6 && len(tasks[i]) >= 3 {
					var names []string
					for _, o := range tasks[i] {
						names = append(names, m.OpName(o))
					}
					r.Samples = append(r.Samples, append(names, "=> "+rs.Canon))
				}
			}
		}
		frontier = nextFrontier
		depth++
		r.PerDepth = append(r.PerDepth, len(nextFrontier))
	}
	r.Depth = depth
	r.Fixpoint = len(frontier) == 0
	r.WallS = time.Since(t0).Seconds()
	sort.Slice(r.Viols, func(i, j int) bool { return len(r.Viols[i].Path) < len(r.Viols[j].Path) })
	return r, nil
}

// Lookup returns a registered model.
func Lookup(name string) *Model { return registry[name] }
