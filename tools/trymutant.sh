#!/bin/bash
# usage: trymutant.sh <patch> <ID> [tier]  — apply a patch to /repo, run the check, always revert
p="$1"; id="$2"; tier="${3:-quick}"
cd /repo || exit 2
if [ -n "$(git status --porcelain)" ]; then echo "repo dirty"; exit 2; fi
git apply "$p" || { echo "PATCH DOES NOT APPLY"; exit 3; }
cd /verif && timeout 1800 ./vcheck "$id" "$tier" > /tmp/trymutant.$$.log 2>&1; rc=$?
git -C /repo checkout -- . ; git -C /repo clean -fdq
grep -aE "^VIOLATION|^KNOWN|violations=|CHECK-BROKEN|vcheck:" /tmp/trymutant.$$.log | head -8
rm -f /tmp/trymutant.$$.log
echo "exit=$rc"
