#!/bin/bash
# usage: trymutant.sh <patch> <ID> [tier] [slot]
# Runs one check against a scratch worktree of /repo's HEAD with the patch applied (VERIF_REPO, see
# vcheck); /repo itself is not touched. The worktree /tmp/try/<slot> is reused; remove with
#   git -C /repo worktree remove --force /tmp/try/<slot>
p="$(readlink -f "$1")"; id="$2"; tier="${3:-quick}"; slot="${4:-s0}"
wt=/tmp/try/$slot
mkdir -p /tmp/try
if [ ! -d "$wt" ]; then git -C /repo worktree add -q --detach "$wt" HEAD || exit 2; fi
cd "$wt" && git checkout -q --detach "$(git -C /repo rev-parse HEAD)" && git checkout -- . && git clean -fdq
git apply "$p" || { echo "PATCH DOES NOT APPLY"; exit 3; }
log=/tmp/try/$slot.log
cd /verif && VERIF_REPO="$wt" timeout 3000 ./vcheck "$id" "$tier" > "$log" 2>&1; rc=$?
cd "$wt" && git checkout -- . && git clean -fdq
grep -aE "^VIOLATION|^KNOWN|violations=|CHECK-BROKEN|vcheck:" "$log" | cut -c1-300 | head -${TRY_LINES:-8}
echo "exit=$rc"
