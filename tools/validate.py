#!/opt/veriftools/pyvenv/bin/python
import json, sys, glob, jsonschema
jsonschema.validate(json.load(open('/verif/MANIFEST.json')), json.load(open('/root/.vp/MANIFEST.schema.json')))
print('manifest ok')
sch = json.load(open('/root/.vp/EVIDENCE.schema.json'))
for f in sorted(glob.glob('/verif/evidence/*.json')):
    jsonschema.validate(json.load(open(f)), sch)
    print('evidence ok', f)
