#!/usr/bin/env python3
"""Regenerates the seeded-change matrix of DESIGN.md (between the seeded-matrix markers) from seeded/*/meta.json."""
import json, os, re
rows = []
for sid in sorted(os.listdir("/verif/seeded")):
    mp = os.path.join("/verif/seeded", sid, "meta.json")
    if not os.path.isfile(mp):
        continue
    m = json.load(open(mp))
    fin = m.get("final_on_repo", {})
    det = fin.get("detected_by") if "detected_by" in fin else m.get("detected_by", [])
    what = (m.get("summary") or "").replace("|", "/").replace("\n", " ")
    if len(what) > 170:
        what = what[:167] + "…"
    needs = (m.get("needs") or "").replace("|", "/").replace("\n", " ")
    if len(needs) > 130:
        needs = needs[:127] + "…"
    rows.append("| %s | %s | %s | %s | %s |" % (sid, m.get("property"), what, needs, ", ".join(det) if det else "**none**"))
tbl = "| change | breaks | what was changed | needs | caught by (quick tier) |\n|---|---|---|---|---|\n" + "\n".join(rows)
p = "/verif/DESIGN.md"
s = open(p).read()
if "SEEDED-MATRIX-PLACEHOLDER" in s:
    s = s.replace("SEEDED-MATRIX-PLACEHOLDER", "<!-- seeded-matrix:begin -->\n" + tbl + "\n<!-- seeded-matrix:end -->")
else:
    s = re.sub(r"<!-- seeded-matrix:begin -->.*?<!-- seeded-matrix:end -->", lambda _: "<!-- seeded-matrix:begin -->\n" + tbl + "\n<!-- seeded-matrix:end -->", s, flags=re.S)
open(p, "w").write(s)
print(len(rows), "rows")
