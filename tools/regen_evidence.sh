#!/bin/bash
# Runs every quick command on the current /repo, one after the other, and validates manifest + evidence.
# usage: tools/regen_evidence.sh [IDs...]
cd "$(dirname "$0")/.." || exit 2
if [ -n "$(git -C /repo status --porcelain)" ]; then echo "/repo is dirty"; exit 2; fi
ids=("$@"); [ ${#ids[@]} -eq 0 ] && ids=(C01 C02 C03 C04 C05 C06 C07 C08 C09 C10 C11 C12 C13 C14 C15 C16 C17 C18 C19 C20)
rc=0
for id in "${ids[@]}"; do
  s=$(date +%s)
  ./vcheck "$id" quick > ".build/quick-$id.log" 2>&1; r=$?
  echo "$id exit=$r $(( $(date +%s)-s ))s $(grep -a " quick: " ".build/quick-$id.log" | tail -1)"
  [ $r -ne 0 ] && rc=1
done
python3-vt tools/validate.py 2>&1 | grep -v "evidence ok"
exit $rc
