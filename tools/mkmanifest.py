#!/usr/bin/env python3
"""Generates /verif/MANIFEST.json from the table below (kept next to the checks it describes)."""
import json, os
ROOT = os.path.dirname(os.path.dirname(os.path.abspath(__file__)))
CHECKS = json.load(open(os.path.join(ROOT, "tools", "checks.json")))
props = [json.loads(l)["id"] for l in open(os.path.join(ROOT, "properties.jsonl"))]
checks, na = [], []
for pid in props:
    e = CHECKS.get(pid)
    if not e or e.get("not_applicable"):
        na.append({"property_id": pid, "reason": (e or {}).get("not_applicable", "check not built yet in this session (see DESIGN.md section 7); nothing is claimed for it")})
        continue
    checks.append({
        "property_id": pid,
        "quick_cmd": f"./vcheck {pid} quick",
        "thorough_cmd": f"./vcheck {pid} thorough",
        "evidence_file": f"/verif/evidence/{pid}.json",
        "replay_cmd_template": "./vcheck replay {path}",
        "engine": e["engine"],
        "level_claimed": {"category": e["level"], "text": e["text"], "design_ref": e["design_ref"]},
        "level_note": e["note"],
        "technique": e["technique"],
    })
m = {
    "version": 1,
    "setup_cmd": "./vcheck setup",
    "hooks": {
        "guard": "verif-overlay",
        "enable": "no source hooks are committed to /repo: every check builds with `go build -overlay <generated json>`; the overlay (rewritten copies of client/*.go with sync/atomic/context/time/net swapped for the simulated runtime of /verif/rt, plus export seams from /verif/export) is regenerated from /repo's current working tree by tools/instr on every run",
        "baseline_off_cmd": "cd /repo && GOFLAGS=-mod=mod GOPROXY=off GOSUMDB=off GOTOOLCHAIN=local go test -vet=off -count=1 ./...",
        "source_commits": [],
        "add_only": True,
    },
    "engines": [
        {"name": "enum", "path": "engine/enum", "serves_properties": [p for p in props if CHECKS.get(p, {}).get("engine") == "enum"], "kind_free_text": "E1: deviation-bounded exhaustive enumeration of inputs from a finite grammar, checked against reference oracles written from the specs"},
        {"name": "explore", "path": "engine/explore + rt/", "serves_properties": [p for p in props if "explore" in CHECKS.get(p, {}).get("engine", "")], "kind_free_text": "E2: stateless schedule exploration of the real client package under a controlled scheduler (preemption- or delay-bounded DFS, virtual time, in-memory network), sharded over processes"},
        {"name": "bfs", "path": "engine/bfs", "serves_properties": [p for p in props if "bfs" in CHECKS.get(p, {}).get("engine", "")], "kind_free_text": "E3: explicit-state BFS over operation histories of real objects to fixpoint, each transition compared with a reference model"},
    ],
    "checks": checks,
    "not_applicable": na,
    "notes": "See DESIGN.md. Exit 2 from a command means the machinery itself failed (build failure, instrumenter refusal, nondeterministic replay) and is never accompanied by a VIOLATION line.",
}
json.dump(m, open(os.path.join(ROOT, "MANIFEST.json"), "w"), indent=1)
print("checks:", [c["property_id"] for c in checks], "not_applicable:", [n["property_id"] for n in na])
