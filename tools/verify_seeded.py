#!/usr/bin/env python3
"""Confirms seeded property-breaking changes on the CURRENT tree and records which checks catch them.

usage: verify_seeded.py triage <source dir with out-CNN/{a,b}/> <round tag> [ids...]
       verify_seeded.py final [seeded ids...]

triage: for every change, in a scratch worktree of /repo's HEAD under /tmp (4 at a time):
  (1) the patch applies, the library builds and the WHOLE test suite passes with it;
  (2) its demonstration fails with the change and passes without it;
  (3) the checks of /verif are run against that worktree (VERIF_REPO=<worktree>, see vcheck).
  Confirmed changes are copied to /verif/seeded/<id>/ with meta.json. Worktrees are removed.
final: for every stored change: git -C /repo apply patch.diff; run the quick command of every check
  listed as detecting (plus the change's own property); git -C /repo checkout -- . — the
  procedure of the brief, on /repo itself, sequentially. Updates meta.json ("final_on_repo").
Evidence of these runs goes to a scratch directory, never to /verif/evidence.
"""
import json, os, queue, re, shutil, subprocess, sys
from concurrent.futures import ThreadPoolExecutor

ENV = dict(os.environ, GOFLAGS="-mod=mod", GOPROXY="off", GOSUMDB="off", GOTOOLCHAIN="local")
SLOTS = os.environ.get("SEEDV_SLOTS", "/tmp/seedv")
DIRS = r"(client|frame|message|primitive|segment|datacodec|datatype|crc|compression/lz4|compression/snappy)"
RELATED = {
    "C01": ["C01", "C02", "C05"], "C02": ["C02", "C01"], "C03": ["C03", "C02"], "C04": ["C04"], "C05": ["C05", "C18"],
    "C06": ["C06", "C18"], "C07": ["C07"], "C08": ["C08", "C06", "C18"], "C09": ["C09", "C10"], "C10": ["C10", "C09", "C15"],
    "C11": ["C11", "C12"], "C12": ["C12", "C11"], "C13": ["C13"], "C14": ["C14", "C11"], "C15": ["C15"],
    "C16": ["C16"], "C17": ["C17"], "C18": ["C18"], "C19": ["C19"], "C20": ["C20"],
}
RUN = "-run \"Demo|demo|DEMO\""


def sh(cmd, cwd=None, timeout=3600, env=None):
    p = subprocess.run(cmd, shell=True, cwd=cwd, env=env or ENV, capture_output=True, text=True, errors="replace", timeout=timeout)
    return p.returncode, (p.stdout + p.stderr)


def netns(cmd, cwd):
    return sh("unshare -n sh -c 'ip link set lo up && cd %s && %s'" % (cwd, cmd))


def run_check(cid, repo):
    env = dict(ENV)
    if repo != "/repo":
        env["VERIF_REPO"] = repo
    else:
        env["VERIF_EVIDENCE_DIR"] = "/verif/.build/mutant-evidence"
    rc, out = sh("./vcheck %s quick" % cid, cwd="/verif", env=env)
    viol = len(re.findall(r"^VIOLATION", out, re.M))
    kinds = sorted(set(re.findall(r"keys: (.*)", out)))[:4]
    broken = [l for l in out.splitlines() if "CHECK-BROKEN" in l or l.startswith("vcheck:")][:2]
    r = {"exit": rc, "violations": viol, "keys": kinds}
    if broken:
        r["broken"] = broken
    return r


def triage_one(slot, mdir, sid, pid, head):
    wt = "%s/slot-%d" % (SLOTS, slot)
    meta = {}
    try:
        meta = json.load(open(os.path.join(mdir, "meta.json")))
    except Exception:
        pass
    res = {"id": sid, "property": pid, "head": head}
    sh("git checkout -- . && git clean -fdq", cwd=wt)
    rc, out = sh("git apply %s/patch.diff" % mdir, cwd=wt)
    res["applies"] = rc == 0
    if rc != 0:
        res["note"] = "patch does not apply to the current tree: " + out.strip()[:200]
        return res
    rc, out = sh("go build ./...", cwd=wt)
    res["builds"] = rc == 0
    rc, out = netns("go test -vet=off -count=1 ./... 2>&1 | tail -15", wt)
    res["suite_passes_with_change"] = ("FAIL" not in out) and rc == 0
    demos = [f for f in os.listdir(mdir) if f.endswith("_test.go")]
    demo_txt = str(meta.get("demo", "")) + " " + " ".join(demos)
    dm = re.search(DIRS + r"/", demo_txt)
    ddir = dm.group(1) if dm else None
    run = RUN
    names = []
    for f in demos:
        names += re.findall(r"^func (Test\w+)\(", open(os.path.join(mdir, f)).read(), re.M)
    if names:
        run = "-run \"^(%s)$\"" % "|".join(names)  # exactly the tests of the demonstration file
    if ddir and demos:
        for f in demos:
            shutil.copy(os.path.join(mdir, f), os.path.join(wt, ddir, f))
        rc1, out1 = netns("go test -vet=off -count=1 %s ./%s/ 2>&1 | tail -5" % (run, ddir), wt)
        res["demo_fails_with_change"] = "FAIL" in out1 or "panic" in out1
        sh("git checkout -- .", cwd=wt)
        rc2, out2 = netns("go test -vet=off -count=1 %s ./%s/ 2>&1 | tail -5" % (run, ddir), wt)
        res["demo_passes_without_change"] = ("FAIL" not in out2) and ("ok" in out2)
        res["demo_dir"] = ddir
        sh("git clean -fdq", cwd=wt)
    else:
        res["note"] = "no demonstration test found"
    sh("git checkout -- . && git clean -fdq && git apply %s/patch.diff" % mdir, cwd=wt)
    det = {}
    for cid in RELATED.get(pid, [pid]):
        det[cid] = run_check(cid, wt)
    sh("git checkout -- . && git clean -fdq", cwd=wt)
    res["checks"] = det
    res["detected_by"] = [k for k, v in det.items() if v["exit"] == 1 and v["violations"] > 0]
    confirmed = all(res.get(k) for k in ("applies", "builds", "suite_passes_with_change", "demo_fails_with_change", "demo_passes_without_change"))
    res["confirmed"] = bool(confirmed)
    if confirmed:
        dst = os.path.join("/verif/seeded", sid)
        os.makedirs(dst, exist_ok=True)
        shutil.copy(os.path.join(mdir, "patch.diff"), dst)
        for f in demos:
            shutil.copy(os.path.join(mdir, f), dst)
        json.dump({
            "property": pid, "id": sid, "summary": meta.get("summary"), "needs": meta.get("needs"),
            "demo": "copy the *_test.go file into %s/ and run (in a private network namespace): go test -vet=off -count=1 %s ./%s/" % (ddir, run, ddir),
            "confirmed_on_repo_head": head,
            "what_was_run": ["git apply patch.diff in a scratch worktree of /repo HEAD", "go build ./...", "go test -vet=off -count=1 ./... (whole suite, private network namespace): passes with the change", "demonstration: fails with the change, passes without", "VERIF_REPO=<that worktree> ./vcheck <ID> quick for " + ", ".join(RELATED.get(pid, [pid]))],
            "checks": det, "detected_by": res["detected_by"],
        }, open(os.path.join(dst, "meta.json"), "w"), indent=1)
    return res


def triage(src, tag, only):
    head = sh("git log --format=%h -1", cwd="/repo")[1].strip()
    jobs = []
    for d in sorted(os.listdir(src)):
        m = re.match(r"out-(C\d\d)$", d)
        if not m:
            continue
        pid = m.group(1)
        for var in ("a", "b"):
            mdir = os.path.join(src, d, var)
            sid = "%s%s-%s" % (pid, var, tag)
            if os.path.exists(os.path.join(mdir, "patch.diff")) and (not only or sid in only or pid in only):
                jobs.append((mdir, sid, pid))
    nslots = max(1, min(3, len(jobs)))
    os.makedirs(SLOTS, exist_ok=True)
    for s in range(nslots):
        sh("git worktree remove --force %s/slot-%d" % (SLOTS, s), cwd="/repo")
        rc, out = sh("git worktree add -q --detach %s/slot-%d HEAD" % (SLOTS, s), cwd="/repo")
        if rc != 0:
            print(out)
            sys.exit(2)
    free = queue.Queue()
    for s in range(nslots):
        free.put(s)
    results = []

    def work(job):
        s = free.get()
        try:
            r = triage_one(s, job[0], job[1], job[2], head)
        except Exception as e:
            r = {"id": job[1], "error": repr(e)}
        finally:
            free.put(s)
        print(json.dumps(r))
        sys.stdout.flush()
        return r

    try:
        with ThreadPoolExecutor(nslots) as ex:
            results = list(ex.map(work, jobs))
    finally:
        for s in range(nslots):
            sh("git worktree remove --force %s/slot-%d" % (SLOTS, s), cwd="/repo")
        shutil.rmtree(SLOTS, ignore_errors=True)
        if "SEEDV_SLOTS" not in os.environ:
            sh("rm -rf /verif/.build/alt-*")
    os.makedirs("/verif/seeded", exist_ok=True)
    rp = "/verif/seeded/results-%s.json" % tag
    old = []
    if os.path.exists(rp):  # several triage invocations of one round (SEEDV_SLOTS apart) add to one file
        old = [r for r in json.load(open(rp)) if r.get("id") not in {x.get("id") for x in results}]
    json.dump(sorted(old + results, key=lambda r: r.get("id", "")), open(rp, "w"), indent=1)


def final(only):
    rc, out = sh("git status --porcelain", cwd="/repo")
    if out.strip():
        print("/repo is dirty, refusing")
        sys.exit(2)
    for sid in sorted(os.listdir("/verif/seeded")):
        d = os.path.join("/verif/seeded", sid)
        mp = os.path.join(d, "meta.json")
        if not os.path.isfile(mp) or (only and sid not in only):
            continue
        meta = json.load(open(mp))
        checks = list(dict.fromkeys([meta["property"]] + meta.get("detected_by", [])))
        rc, out = sh("git apply %s/patch.diff" % d, cwd="/repo")
        if rc != 0:
            meta["final_on_repo"] = {"error": "patch no longer applies: " + out.strip()[:200]}
        else:
            try:
                # the check of the property the change breaks; the other detecting checks only if that one misses
                fin = {}
                for c in checks:
                    fin[c] = run_check(c, "/repo")
                    if fin[c]["exit"] == 1 and fin[c]["violations"] > 0:
                        break
            finally:
                sh("git checkout -- . && git clean -fdq", cwd="/repo")
            meta["final_on_repo"] = {"head": sh("git log --format=%h -1", cwd="/repo")[1].strip(), "procedure": "git -C /repo apply patch.diff; ./vcheck <ID> quick; git -C /repo checkout -- .", "checks": fin,
                                     "detected_by": [k for k, v in fin.items() if v["exit"] == 1 and v["violations"] > 0]}
        json.dump(meta, open(mp, "w"), indent=1)
        print(sid, json.dumps(meta["final_on_repo"].get("detected_by", meta["final_on_repo"])))
        sys.stdout.flush()


if __name__ == "__main__":
    if sys.argv[1] == "triage":
        triage(sys.argv[2], sys.argv[3], sys.argv[4:])
    elif sys.argv[1] == "final":
        final(sys.argv[2:])
