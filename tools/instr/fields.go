package main

import (
	"go/ast"
	"go/token"
	"go/types"
	"strconv"
	"strings"

	"golang.org/x/tools/go/ast/astutil"
	"golang.org/x/tools/go/packages"
)

// Field points (-fields, applied to the packages under the scheduler): a struct field of the
// package that is ASSIGNED somewhere outside a constructor (a function named new*/New*) is mutable
// shared state that no sync primitive announces (c.modernLayout = true, c.outgoing = nil,
// r._incoming = nil, r.done = true ...). A scheduling point is inserted before every statement
// that reads or writes such a field, so that the orders "flag set before / after the write that
// makes the peer answer" or "field niled before / after the channel is closed" become schedules
// the explorer enumerates. Fields that are only set in constructors or composite literals are
// immutable after publication and get no points.

var fieldPoints bool
var fieldSites int

func mutableFields(p *packages.Package) map[*types.Var]bool {
	out := map[*types.Var]bool{}
	info := p.TypesInfo
	mark := func(e ast.Expr) {
		for {
			switch x := e.(type) {
			case *ast.ParenExpr:
				e = x.X
				continue
			case *ast.IndexExpr:
				e = x.X
				continue
			case *ast.StarExpr:
				e = x.X
				continue
			}
			break
		}
		if se, ok := e.(*ast.SelectorExpr); ok {
			if sel, ok := info.Selections[se]; ok && sel.Kind() == types.FieldVal {
				if v, ok := sel.Obj().(*types.Var); ok && v.Pkg() == p.Types {
					out[v] = true
				}
			}
		}
	}
	for i, f := range p.Syntax {
		if strings.HasSuffix(p.CompiledGoFiles[i], "_test.go") {
			continue
		}
		for _, d := range f.Decls {
			fd, ok := d.(*ast.FuncDecl)
			if !ok || fd.Body == nil {
				continue
			}
			if n := fd.Name.Name; strings.HasPrefix(n, "new") || strings.HasPrefix(n, "New") {
				continue
			}
			ast.Inspect(fd.Body, func(n ast.Node) bool {
				switch s := n.(type) {
				case *ast.AssignStmt:
					if s.Tok != token.DEFINE {
						for _, l := range s.Lhs {
							mark(l)
						}
					}
				case *ast.IncDecStmt:
					mark(s.X)
				}
				return true
			})
		}
	}
	return out
}

func touchesMutableField(info *types.Info, mf map[*types.Var]bool, n ast.Node) bool {
	found := false
	ast.Inspect(n, func(x ast.Node) bool {
		switch e := x.(type) {
		case *ast.BlockStmt, *ast.FuncLit:
			if x != n {
				return false
			}
		case *ast.SelectorExpr:
			if sel, ok := info.Selections[e]; ok && sel.Kind() == types.FieldVal {
				if v, ok := sel.Obj().(*types.Var); ok && mf[v] {
					found = true
				}
			}
		}
		return !found
	})
	return found
}

// insertFieldPoints rewrites f in place; it reports whether anything was inserted.
func insertFieldPoints(p *packages.Package, f *ast.File, mf map[*types.Var]bool) bool {
	info := p.TypesInfo
	used := false
	rewriteList := func(list []ast.Stmt) []ast.Stmt {
		var out []ast.Stmt
		for _, st := range list {
			shared := false
			for _, o := range ownParts(st) {
				if o != nil && touchesMutableField(info, mf, o) {
					shared = true
				}
			}
			if shared {
				used = true
				fieldSites++
				stats["field_sites"]++
				out = append(out, &ast.ExprStmt{X: call("sched", "Point", &ast.BasicLit{Kind: token.STRING, Value: strconv.Quote("field")}, &ast.BasicLit{Kind: token.INT, Value: strconv.Itoa(fieldSites)})})
			}
			out = append(out, st)
		}
		return out
	}
	astutil.Apply(f, nil, func(c *astutil.Cursor) bool {
		switch b := c.Node().(type) {
		case *ast.BlockStmt:
			switch c.Parent().(type) {
			case *ast.SwitchStmt, *ast.TypeSwitchStmt, *ast.SelectStmt:
			default:
				b.List = rewriteList(b.List)
			}
		case *ast.CaseClause:
			b.Body = rewriteList(b.Body)
		case *ast.CommClause:
			b.Body = rewriteList(b.Body)
		}
		return true
	})
	return used
}
