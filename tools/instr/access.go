package main

import (
	"go/ast"

	"golang.org/x/tools/go/packages"
)

// rewriteAccess is filled in by access instrumentation (C18).
func rewriteAccess(p *packages.Package, f *ast.File) []byte {
	return instrumentAccesses(p, f)
}
