package main

import (
	"go/ast"

	"golang.org/x/tools/go/packages"
)

func instrumentAccesses(p *packages.Package, f *ast.File) []byte {
	die("access instrumentation not built yet")
	return nil
}
