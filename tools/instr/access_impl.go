package main

import (
	"fmt"
	"go/ast"
	"go/token"
	"go/types"
	"strconv"
	"strings"

	"golang.org/x/tools/go/ast/astutil"
	"golang.org/x/tools/go/packages"
)

// Access instrumentation (C18): a scheduling point is inserted before every statement that reads
// or writes (a) a package-level variable or (b) a field of a codec / compressor struct declared in
// the instrumented packages — the only places where state shared between goroutines can live in
// the stateless encode/decode packages. A statement that both reads and writes such state
// (x.f = g(x.f), n++) gets a second point between the evaluation of its right-hand side and the
// store, so that lost updates are explorable. Imports of sync are swapped for the deterministic
// shim (its Pool hands back the most recently returned object, which is what makes a
// use-after-Put observable).

var accessSites int

func sharedStructName(n string) bool {
	l := strings.ToLower(n)
	return strings.Contains(l, "codec") || strings.Contains(l, "compressor")
}

// touchesShared reports whether expression/statement n (without descending into nested blocks
// or function literals) mentions shared state; writes reports whether it stores to it.
func touchesShared(info *types.Info, n ast.Node) (reads bool) {
	ast.Inspect(n, func(x ast.Node) bool {
		switch e := x.(type) {
		case *ast.BlockStmt, *ast.FuncLit:
			if x != n {
				return false
			}
		case *ast.Ident:
			if v, ok := info.Uses[e].(*types.Var); ok && !v.IsField() && v.Parent() != nil && v.Pkg() != nil && v.Parent() == v.Pkg().Scope() {
				if strings.Contains(v.Pkg().Path(), module) {
					reads = true
				}
			}
		case *ast.SelectorExpr:
			if sel, ok := info.Selections[e]; ok && sel.Kind() == types.FieldVal {
				t := sel.Recv()
				if p, ok := t.(*types.Pointer); ok {
					t = p.Elem()
				}
				if nt, ok := t.(*types.Named); ok && nt.Obj().Pkg() != nil && strings.Contains(nt.Obj().Pkg().Path(), module) && sharedStructName(nt.Obj().Name()) {
					reads = true
				}
			}
		}
		return true
	})
	return
}

func point(kind string) ast.Stmt {
	accessSites++
	stats["access_sites"]++
	return &ast.ExprStmt{X: call("sched", "Point", &ast.BasicLit{Kind: token.STRING, Value: strconv.Quote(kind)}, &ast.BasicLit{Kind: token.INT, Value: strconv.Itoa(accessSites)})}
}

func instrumentAccesses(p *packages.Package, f *ast.File) []byte {
	fset := p.Fset
	info := p.TypesInfo
	swapped := false
	for _, imp := range f.Imports {
		path, _ := strconv.Unquote(imp.Path.Value)
		if path == "sync" {
			imp.Name = ast.NewIdent("sync")
			imp.Path.Value = strconv.Quote(rtBase + "vsync")
			swapped = true
		}
	}
	used := false
	tmp := 0
	// calls whose receiver or arguments mention shared state: a point is passed right after the
	// call returns (before its result is consumed by the enclosing expression), which exposes
	// the window between "shared object mutated by the call" and "result/used by the caller".
	wrapped := map[*ast.CallExpr]bool{}
	astutil.Apply(f, nil, func(c *astutil.Cursor) bool {
		call, ok := c.Node().(*ast.CallExpr)
		if !ok || wrapped[call] {
			return true
		}
		if _, isStmt := c.Parent().(*ast.ExprStmt); isStmt {
			return true
		}
		if _, isGo := c.Parent().(*ast.GoStmt); isGo {
			return true
		}
		if _, isDefer := c.Parent().(*ast.DeferStmt); isDefer {
			return true
		}
		tv, ok := info.Types[call]
		if !ok || tv.IsType() || tv.Type == nil {
			return true
		}
		if _, isTuple := tv.Type.(*types.Tuple); isTuple {
			return true
		}
		if tv.IsVoid() {
			return true
		}
		// conversions and builtins are not calls
		if ftv, ok := info.Types[call.Fun]; ok && (ftv.IsType() || ftv.IsBuiltin()) {
			return true
		}
		mentions := false
		if se, ok := call.Fun.(*ast.SelectorExpr); ok && touchesShared(info, se.X) {
			mentions = true
		}
		for _, a := range call.Args {
			if touchesShared(info, a) {
				mentions = true
			}
		}
		if !mentions {
			return true
		}
		if b, ok := tv.Type.Underlying().(*types.Basic); ok && b.Info()&types.IsUntyped != 0 {
			return true
		}
		wrapped[call] = true
		accessSites++
		stats["after_call_sites"]++
		used = true
		w := &ast.CallExpr{Fun: sel("sched", "After"), Args: []ast.Expr{&ast.BasicLit{Kind: token.INT, Value: strconv.Itoa(accessSites)}, call}}
		wrapped[w] = true
		c.Replace(w)
		return true
	})
	rewriteList := func(list []ast.Stmt) []ast.Stmt {
		var out []ast.Stmt
		for _, st := range list {
			// only the statement's own expressions; nested blocks are visited separately
			own := ownParts(st)
			shared := false
			for _, o := range own {
				if o != nil && touchesShared(info, o) {
					shared = true
				}
			}
			if !shared {
				out = append(out, st)
				continue
			}
			used = true
			switch s := st.(type) {
			case *ast.AssignStmt:
				// shared location on the left and shared state read on the right: split load and store
				if len(s.Lhs) == 1 && len(s.Rhs) == 1 && (s.Tok == token.ASSIGN) && touchesShared(info, s.Lhs[0]) && touchesShared(info, s.Rhs[0]) {
					if t := info.TypeOf(s.Rhs[0]); t != nil {
						if _, isTuple := t.(*types.Tuple); !isTuple {
							tmp++
							id := ast.NewIdent(fmt.Sprintf("_vacc%d", tmp))
							out = append(out, point("load"), &ast.AssignStmt{Lhs: []ast.Expr{id}, Tok: token.DEFINE, Rhs: []ast.Expr{s.Rhs[0]}}, point("store"), &ast.AssignStmt{Lhs: s.Lhs, Tok: token.ASSIGN, Rhs: []ast.Expr{id}})
							continue
						}
					}
				}
				if len(s.Lhs) == 1 && len(s.Rhs) == 1 && s.Tok != token.ASSIGN && s.Tok != token.DEFINE && touchesShared(info, s.Lhs[0]) {
					// x op= y  ->  tmp := x op y; point; x = tmp
					var op token.Token
					switch s.Tok {
					case token.ADD_ASSIGN:
						op = token.ADD
					case token.SUB_ASSIGN:
						op = token.SUB
					case token.OR_ASSIGN:
						op = token.OR
					case token.AND_ASSIGN:
						op = token.AND
					case token.XOR_ASSIGN:
						op = token.XOR
					}
					if op != 0 {
						tmp++
						id := ast.NewIdent(fmt.Sprintf("_vacc%d", tmp))
						out = append(out, point("load"), &ast.AssignStmt{Lhs: []ast.Expr{id}, Tok: token.DEFINE, Rhs: []ast.Expr{&ast.BinaryExpr{X: s.Lhs[0], Op: op, Y: s.Rhs[0]}}}, point("store"), &ast.AssignStmt{Lhs: s.Lhs, Tok: token.ASSIGN, Rhs: []ast.Expr{id}})
						continue
					}
				}
			case *ast.IncDecStmt:
				if touchesShared(info, s.X) {
					op := token.ADD
					if s.Tok == token.DEC {
						op = token.SUB
					}
					tmp++
					id := ast.NewIdent(fmt.Sprintf("_vacc%d", tmp))
					out = append(out, point("load"), &ast.AssignStmt{Lhs: []ast.Expr{id}, Tok: token.DEFINE, Rhs: []ast.Expr{&ast.BinaryExpr{X: s.X, Op: op, Y: &ast.BasicLit{Kind: token.INT, Value: "1"}}}}, point("store"), &ast.AssignStmt{Lhs: []ast.Expr{s.X}, Tok: token.ASSIGN, Rhs: []ast.Expr{id}})
					continue
				}
			case *ast.DeferStmt:
				// the deferred call runs at function exit: wrap it so that the point is passed there
				if call, ok := interface{}(s.Call).(*ast.CallExpr); ok {
					if _, isLit := call.Fun.(*ast.FuncLit); !isLit {
						pt := point("defer")
						fl := &ast.FuncLit{Type: &ast.FuncType{Params: &ast.FieldList{}}, Body: &ast.BlockStmt{List: []ast.Stmt{pt, &ast.ExprStmt{X: call}}}}
						// arguments of a deferred call are evaluated at the defer statement; keep that for idents only
						out = append(out, point("access"), &ast.DeferStmt{Call: &ast.CallExpr{Fun: fl}})
						_ = fl
						continue
					}
				}
			}
			out = append(out, point("access"), st)
			switch st.(type) {
			case *ast.ExprStmt, *ast.AssignStmt:
				out = append(out, point("after"))
			}
		}
		return out
	}
	astutil.Apply(f, nil, func(c *astutil.Cursor) bool {
		switch b := c.Node().(type) {
		case *ast.BlockStmt:
			switch c.Parent().(type) {
			case *ast.SwitchStmt, *ast.TypeSwitchStmt, *ast.SelectStmt:
				// the list holds case clauses, which are rewritten on their own
			default:
				b.List = rewriteList(b.List)
			}
		case *ast.CaseClause:
			b.Body = rewriteList(b.Body)
		case *ast.CommClause:
			b.Body = rewriteList(b.Body)
		}
		return true
	})
	if !used && !swapped {
		return nil // untouched file: keep the original (it may carry its own build constraints)
	}
	tail := ""
	if used {
		astutil.AddImport(fset, f, rtBase+"sched")
		tail = "\nvar _ = sched.Point\n"
	}
	return render(fset, f, tail)
}

// ownParts returns the expressions evaluated by a statement itself, excluding the bodies of
// nested blocks.
func ownParts(st ast.Stmt) []ast.Node {
	switch s := st.(type) {
	case *ast.IfStmt:
		var out []ast.Node
		if s.Init != nil {
			out = append(out, s.Init)
		}
		return append(out, s.Cond)
	case *ast.ForStmt:
		var out []ast.Node
		if s.Init != nil {
			out = append(out, s.Init)
		}
		if s.Cond != nil {
			out = append(out, s.Cond)
		}
		return out
	case *ast.RangeStmt:
		return []ast.Node{s.X}
	case *ast.SwitchStmt:
		var out []ast.Node
		if s.Init != nil {
			out = append(out, s.Init)
		}
		if s.Tag != nil {
			out = append(out, s.Tag)
		}
		return out
	case *ast.TypeSwitchStmt:
		var out []ast.Node
		if s.Init != nil {
			out = append(out, s.Init)
		}
		return append(out, s.Assign)
	case *ast.BlockStmt, *ast.LabeledStmt, *ast.SelectStmt:
		return nil
	}
	return []ast.Node{st}
}
