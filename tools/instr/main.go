// instr generates a `go build -overlay` file that puts the client package of the repository under
// the controlled scheduler of /verif/rt, without touching the repository:
//
//   - rewritten copies of the non-test files of the packages named by -sched (imports of sync,
//     sync/atomic, context, time, net swapped for the shims; go statements, channel operations,
//     select statements and ranges over maps/channels routed through the scheduler);
//   - the shim packages of -rt mapped virtually to <module>/verifrt/<name>;
//   - extra files added to packages of the repository (-add dest=src).
//
// It refuses (exit 2) to translate constructs it does not understand.
package main

import (
	"bytes"
	"encoding/json"
	"flag"
	"fmt"
	"go/ast"
	"go/printer"
	"go/token"
	"go/types"
	"os"
	"path/filepath"
	"sort"
	"strconv"
	"strings"

	"golang.org/x/tools/go/ast/astutil"
	"golang.org/x/tools/go/packages"
)

const module = "github.com/datastax/go-cassandra-native-protocol"
const rtBase = module + "/verifrt/"

var swap = map[string][2]string{
	"sync":        {"sync", rtBase + "vsync"},
	"sync/atomic": {"atomic", rtBase + "vatomic"},
	"context":     {"context", rtBase + "vctx"},
	"time":        {"time", rtBase + "vtime"},
	"net":         {"net", rtBase + "vnet"},
}

type multi []string

func (m *multi) String() string     { return strings.Join(*m, ",") }
func (m *multi) Set(s string) error { *m = append(*m, s); return nil }

func die(format string, a ...interface{}) {
	fmt.Fprintf(os.Stderr, "instr: "+format+"\n", a...)
	os.Exit(2)
}

func sel(pkg, name string) ast.Expr {
	return &ast.SelectorExpr{X: ast.NewIdent(pkg), Sel: ast.NewIdent(name)}
}
func call(pkg, name string, args ...ast.Expr) *ast.CallExpr {
	return &ast.CallExpr{Fun: sel(pkg, name), Args: args}
}

var stats = map[string]int{}

func main() {
	repo := flag.String("repo", "/repo", "repository root")
	rt := flag.String("rt", "/verif/rt", "directory of the shim packages")
	out := flag.String("out", "", "output directory")
	var schedPkgs, adds, accessPkgs multi
	flag.Var(&schedPkgs, "sched", "package (relative to the repository) to put under the scheduler")
	flag.Var(&adds, "add", "dest=src: add file src to the repository at relative path dest")
	flag.Var(&accessPkgs, "access", "package whose accesses to package-level variables and codec struct fields become scheduling points")
	flag.BoolVar(&fieldPoints, "fields", false, "with -sched: also insert scheduling points before accesses to struct fields that are assigned outside constructors")
	flag.Parse()
	if *out == "" {
		die("-out required")
	}
	if err := os.MkdirAll(*out, 0o755); err != nil {
		die("%v", err)
	}
	replace := map[string]string{}
	// shim packages
	ents, err := os.ReadDir(*rt)
	if err != nil {
		die("%v", err)
	}
	for _, e := range ents {
		if !e.IsDir() {
			continue
		}
		files, _ := filepath.Glob(filepath.Join(*rt, e.Name(), "*.go"))
		for _, f := range files {
			replace[filepath.Join(*repo, "verifrt", e.Name(), filepath.Base(f))] = f
		}
	}
	for _, a := range adds {
		kv := strings.SplitN(a, "=", 2)
		if len(kv) != 2 {
			die("bad -add %q", a)
		}
		replace[filepath.Join(*repo, kv[0])] = kv[1]
	}
	var patterns []string
	for _, p := range schedPkgs {
		patterns = append(patterns, "./"+p)
	}
	for _, p := range accessPkgs {
		patterns = append(patterns, "./"+p)
	}
	if len(patterns) > 0 {
		cfg := &packages.Config{Mode: packages.NeedName | packages.NeedFiles | packages.NeedSyntax | packages.NeedTypes | packages.NeedTypesInfo | packages.NeedImports | packages.NeedCompiledGoFiles, Dir: *repo}
		pkgs, err := packages.Load(cfg, patterns...)
		if err != nil {
			die("load: %v", err)
		}
		for _, p := range pkgs {
			for _, e := range p.Errors {
				die("load %s: %v", p.PkgPath, e)
			}
			rel := strings.TrimPrefix(strings.TrimPrefix(p.PkgPath, module), "/")
			isSched := false
			for _, s := range schedPkgs {
				if s == rel {
					isSched = true
				}
			}
			var mf map[*types.Var]bool
			if isSched && fieldPoints {
				mf = mutableFields(p)
				var names []string
				for v := range mf {
					names = append(names, v.Name())
				}
				sort.Strings(names)
				stats["mutable_fields"] = len(names)
				fmt.Fprintf(os.Stderr, "instr: mutable fields of %s: %s\n", rel, strings.Join(names, " "))
			}
			for i, f := range p.Syntax {
				name := p.CompiledGoFiles[i]
				if strings.HasSuffix(name, "_test.go") {
					continue
				}
				var src []byte
				if isSched {
					if mf != nil && !strings.HasSuffix(name, "_test.go") {
						forceSched = insertFieldPoints(p, f, mf)
					}
					src = rewriteSched(p, f)
				} else {
					src = rewriteAccess(p, f)
				}
				if src == nil {
					continue
				}
				dst := filepath.Join(*out, rel, filepath.Base(name))
				if err := os.MkdirAll(filepath.Dir(dst), 0o755); err != nil {
					die("%v", err)
				}
				if err := os.WriteFile(dst, src, 0o644); err != nil {
					die("%v", err)
				}
				replace[name] = dst
			}
		}
	}
	js, _ := json.MarshalIndent(map[string]interface{}{"Replace": replace}, "", " ")
	if err := os.WriteFile(filepath.Join(*out, "overlay.json"), js, 0o644); err != nil {
		die("%v", err)
	}
	var keys []string
	for k := range stats {
		keys = append(keys, k)
	}
	sort.Strings(keys)
	sj := map[string]int{}
	for _, k := range keys {
		sj[k] = stats[k]
	}
	b, _ := json.Marshal(sj)
	_ = os.WriteFile(filepath.Join(*out, "instr_stats.json"), b, 0o644)
}

func render(fset *token.FileSet, f *ast.File, tail string) []byte {
	var buf bytes.Buffer
	if err := printer.Fprint(&buf, fset, f); err != nil {
		die("print: %v", err)
	}
	buf.WriteString(tail)
	return append([]byte("//go:build go1.21\n\n"), buf.Bytes()...)
}

var forceSched bool

func rewriteSched(p *packages.Package, f *ast.File) []byte {
	fset := p.Fset
	info := p.TypesInfo
	for _, imp := range f.Imports {
		path, _ := strconv.Unquote(imp.Path.Value)
		if s, ok := swap[path]; ok {
			if imp.Name != nil && imp.Name.Name != s[0] {
				die("%s: import %q renamed to %s: not supported", fset.Position(imp.Pos()), path, imp.Name.Name)
			}
			imp.Name = ast.NewIdent(s[0])
			imp.Path.Value = strconv.Quote(s[1])
			stats["imports_swapped"]++
		}
	}
	skip := map[ast.Node]bool{}
	n := 0
	used := forceSched
	forceSched = false
	tmp := 0
	fresh := func(p string) *ast.Ident { tmp++; return ast.NewIdent(fmt.Sprintf("_v%s%d", p, tmp)) }
	astutil.Apply(f, func(c *astutil.Cursor) bool {
		if cc, ok := c.Node().(*ast.CommClause); ok && cc.Comm != nil {
			switch s := cc.Comm.(type) {
			case *ast.SendStmt:
				skip[s] = true
			case *ast.ExprStmt:
				skip[s.X] = true
			case *ast.AssignStmt:
				skip[s.Rhs[0]] = true
			}
		}
		if d, ok := c.Node().(*ast.DeferStmt); ok {
			ast.Inspect(d.Call, func(n ast.Node) bool {
				if _, ok := n.(*ast.FuncLit); ok {
					return false
				}
				if u, ok := n.(*ast.UnaryExpr); ok && u.Op == token.ARROW {
					die("%s: channel receive in a defer expression: not supported", fset.Position(u.Pos()))
				}
				return true
			})
		}
		return true
	}, func(c *astutil.Cursor) bool {
		switch x := c.Node().(type) {
		case *ast.GoStmt:
			used = true
			stats["go_stmts"]++
			if fl, ok := x.Call.Fun.(*ast.FuncLit); ok && len(x.Call.Args) == 0 {
				c.Replace(&ast.ExprStmt{X: call("sched", "Go", fl)})
				break
			}
			// evaluate function value and arguments now, call later
			var pre []ast.Stmt
			var args []ast.Expr
			fn := x.Call.Fun
			if _, isLit := fn.(*ast.FuncLit); !isLit {
				if se, ok := fn.(*ast.SelectorExpr); ok {
					// method value or package function: evaluate the receiver now
					if _, isPkg := info.Uses[identOf(se.X)].(*types.PkgName); !isPkg {
						id := fresh("r")
						pre = append(pre, &ast.AssignStmt{Lhs: []ast.Expr{id}, Tok: token.DEFINE, Rhs: []ast.Expr{se.X}})
						fn = &ast.SelectorExpr{X: id, Sel: se.Sel}
					}
				}
			}
			for _, a := range x.Call.Args {
				id := fresh("a")
				pre = append(pre, &ast.AssignStmt{Lhs: []ast.Expr{id}, Tok: token.DEFINE, Rhs: []ast.Expr{a}})
				args = append(args, id)
			}
			body := &ast.FuncLit{Type: &ast.FuncType{Params: &ast.FieldList{}}, Body: &ast.BlockStmt{List: []ast.Stmt{&ast.ExprStmt{X: &ast.CallExpr{Fun: fn, Args: args, Ellipsis: x.Call.Ellipsis}}}}}
			pre = append(pre, &ast.ExprStmt{X: call("sched", "Go", body)})
			c.Replace(&ast.BlockStmt{List: pre})
		case *ast.SendStmt:
			if !skip[x] {
				used = true
				stats["sends"]++
				c.Replace(&ast.ExprStmt{X: call("vchan", "Send", x.Chan, x.Value)})
			}
		case *ast.UnaryExpr:
			if x.Op == token.ARROW && !skip[x] {
				used = true
				stats["recvs"]++
				name := "Recv"
				switch par := c.Parent().(type) {
				case *ast.AssignStmt:
					if len(par.Lhs) == 2 && len(par.Rhs) == 1 {
						name = "Recv2"
					}
				case *ast.ValueSpec:
					if len(par.Names) == 2 && len(par.Values) == 1 {
						name = "Recv2"
					}
				}
				c.Replace(call("vchan", name, x.X))
			}
		case *ast.CallExpr:
			if id, ok := x.Fun.(*ast.Ident); ok && id.Name == "close" && len(x.Args) == 1 {
				if _, isBuiltin := info.Uses[id].(*types.Builtin); isBuiltin {
					used = true
					stats["closes"]++
					c.Replace(call("vchan", "Close", x.Args[0]))
				}
			}
		case *ast.RangeStmt:
			t := info.TypeOf(x.X)
			if t == nil {
				die("%s: no type for range expression", fset.Position(x.Pos()))
			}
			switch t.Underlying().(type) {
			case *types.Map:
				used = true
				stats["map_ranges"]++
				if x.Tok != token.DEFINE && (x.Key != nil || x.Value != nil) {
					die("%s: range over map with '=' assignment: not supported", fset.Position(x.Pos()))
				}
				mv := fresh("m")
				var key ast.Expr = fresh("k")
				if id, ok := x.Key.(*ast.Ident); ok && id.Name != "_" {
					key = id
				}
				var head []ast.Stmt
				okv := fresh("ok")
				var val ast.Expr = ast.NewIdent("_")
				if id, ok := x.Value.(*ast.Ident); ok && id.Name != "_" {
					val = id
				}
				head = append(head, &ast.AssignStmt{Lhs: []ast.Expr{val, okv}, Tok: token.DEFINE, Rhs: []ast.Expr{&ast.IndexExpr{X: mv, Index: key}}})
				head = append(head, &ast.IfStmt{Cond: &ast.UnaryExpr{Op: token.NOT, X: okv}, Body: &ast.BlockStmt{List: []ast.Stmt{&ast.BranchStmt{Tok: token.CONTINUE}}}})
				loop := &ast.RangeStmt{Key: ast.NewIdent("_"), Value: key, Tok: token.DEFINE, X: call("vchan", "MapKeys", mv), Body: &ast.BlockStmt{List: append(head, x.Body.List...)}}
				c.Replace(&ast.BlockStmt{List: []ast.Stmt{
					&ast.AssignStmt{Lhs: []ast.Expr{mv}, Tok: token.DEFINE, Rhs: []ast.Expr{x.X}},
					loop,
				}})
				if _, labeled := c.Parent().(*ast.LabeledStmt); labeled {
					die("%s: labeled range over map: not supported", fset.Position(x.Pos()))
				}
			case *types.Chan:
				used = true
				stats["chan_ranges"]++
				if x.Tok != token.DEFINE && x.Key != nil {
					die("%s: range over channel with '=' assignment: not supported", fset.Position(x.Pos()))
				}
				if _, labeled := c.Parent().(*ast.LabeledStmt); labeled {
					die("%s: labeled range over channel: not supported", fset.Position(x.Pos()))
				}
				var v ast.Expr = ast.NewIdent("_")
				if x.Key != nil {
					v = x.Key
				}
				okv := fresh("ok")
				head := []ast.Stmt{
					&ast.AssignStmt{Lhs: []ast.Expr{v, okv}, Tok: token.DEFINE, Rhs: []ast.Expr{call("vchan", "Recv2", x.X)}},
					&ast.IfStmt{Cond: &ast.UnaryExpr{Op: token.NOT, X: okv}, Body: &ast.BlockStmt{List: []ast.Stmt{&ast.BranchStmt{Tok: token.BREAK}}}},
				}
				c.Replace(&ast.ForStmt{Body: &ast.BlockStmt{List: append(head, x.Body.List...)}})
			}
		case *ast.SelectStmt:
			used = true
			stats["selects"]++
			n++
			if _, labeled := c.Parent().(*ast.LabeledStmt); labeled {
				die("%s: labeled select: not supported", fset.Position(x.Pos()))
			}
			var pre []ast.Stmt
			var cases []ast.Expr
			var clauses []ast.Stmt
			hasDefault := false
			idx := 0
			for _, cl := range x.Body.List {
				cc := cl.(*ast.CommClause)
				if cc.Comm == nil {
					hasDefault = true
					clauses = append(clauses, &ast.CaseClause{List: nil, Body: cc.Body})
					continue
				}
				chv := ast.NewIdent(fmt.Sprintf("_vc%d_%d", n, idx))
				var first ast.Stmt
				switch s := cc.Comm.(type) {
				case *ast.SendStmt:
					vv := ast.NewIdent(fmt.Sprintf("_vv%d_%d", n, idx))
					pre = append(pre, &ast.AssignStmt{Lhs: []ast.Expr{chv, vv}, Tok: token.DEFINE, Rhs: []ast.Expr{s.Chan, s.Value}})
					cases = append(cases, call("vchan", "SendCase", chv))
					first = &ast.ExprStmt{X: call("vchan", "DoSend", chv, vv)}
				case *ast.ExprStmt:
					pre = append(pre, &ast.AssignStmt{Lhs: []ast.Expr{chv}, Tok: token.DEFINE, Rhs: []ast.Expr{s.X.(*ast.UnaryExpr).X}})
					cases = append(cases, call("vchan", "RecvCase", chv))
					first = &ast.ExprStmt{X: call("vchan", "DoRecv", chv)}
				case *ast.AssignStmt:
					pre = append(pre, &ast.AssignStmt{Lhs: []ast.Expr{chv}, Tok: token.DEFINE, Rhs: []ast.Expr{s.Rhs[0].(*ast.UnaryExpr).X}})
					cases = append(cases, call("vchan", "RecvCase", chv))
					name := "DoRecv"
					if len(s.Lhs) == 2 {
						name = "DoRecv2"
					}
					first = &ast.AssignStmt{Lhs: s.Lhs, Tok: s.Tok, Rhs: []ast.Expr{call("vchan", name, chv)}}
				default:
					die("%s: unknown comm clause", fset.Position(cc.Pos()))
				}
				body := append([]ast.Stmt{first}, cc.Body...)
				clauses = append(clauses, &ast.CaseClause{List: []ast.Expr{&ast.BasicLit{Kind: token.INT, Value: strconv.Itoa(idx)}}, Body: body})
				idx++
			}
			hd := "false"
			if hasDefault {
				hd = "true"
			} else {
				clauses = append(clauses, &ast.CaseClause{List: nil, Body: []ast.Stmt{&ast.ExprStmt{X: &ast.CallExpr{Fun: ast.NewIdent("panic"), Args: []ast.Expr{&ast.BasicLit{Kind: token.STRING, Value: `"vchan: unreachable select default"`}}}}}})
			}
			args := append([]ast.Expr{ast.NewIdent(hd)}, cases...)
			sw := &ast.SwitchStmt{Tag: call("vchan", "Select", args...), Body: &ast.BlockStmt{List: clauses}}
			c.Replace(&ast.BlockStmt{List: append(pre, sw)})
		}
		return true
	})
	tail := ""
	if used {
		astutil.AddImport(fset, f, rtBase+"sched")
		astutil.AddImport(fset, f, rtBase+"vchan")
		tail = "\nvar _ = sched.Op\nvar _ = vchan.ID\n"
	}
	return render(fset, f, tail)
}

func identOf(e ast.Expr) *ast.Ident {
	if id, ok := e.(*ast.Ident); ok {
		return id
	}
	return nil
}
