// C19 — declared constants and validity checks agree; capability tables match the specs.
// E1: the set of declared constants is extracted from primitive/*.go of the current tree with
// go/types; every validity predicate is evaluated over the complete domain of its code type.
package main

import (
	"fmt"
	"go/ast"
	"go/constant"
	"go/importer"
	"go/parser"
	"go/token"
	"go/types"
	"os"
	"path/filepath"
	"sort"
	"strings"
	"sync"
	"sync/atomic"

	p "github.com/datastax/go-cassandra-native-protocol/primitive"

	"verif/vlib"
)

type declared struct {
	Type  string
	Name  string
	Int   uint64
	Str   string
	IsStr bool
}

func loadConstants(repo string) []declared {
	fset := token.NewFileSet()
	pkgs, err := parser.ParseDir(fset, filepath.Join(repo, "primitive"), func(fi os.FileInfo) bool { return !strings.HasSuffix(fi.Name(), "_test.go") }, 0)
	if err != nil {
		panic(err)
	}
	var files []*ast.File
	for _, f := range pkgs["primitive"].Files {
		files = append(files, f)
	}
	conf := types.Config{Importer: importer.ForCompiler(fset, "source", nil), Error: func(error) {}}
	pkg, _ := conf.Check("primitive", fset, files, nil)
	var out []declared
	sc := pkg.Scope()
	for _, n := range sc.Names() {
		c, ok := sc.Lookup(n).(*types.Const)
		if !ok {
			continue
		}
		nt, ok := c.Type().(*types.Named)
		if !ok || nt.Obj().Pkg() != pkg {
			continue
		}
		d := declared{Type: nt.Obj().Name(), Name: n}
		switch c.Val().Kind() {
		case constant.Int:
			u, _ := constant.Uint64Val(c.Val())
			if constant.Sign(c.Val()) < 0 {
				i, _ := constant.Int64Val(c.Val())
				u = uint64(i)
			}
			d.Int = u
		case constant.String:
			d.Str, d.IsStr = constant.StringVal(c.Val()), true
		default:
			continue
		}
		out = append(out, d)
	}
	return out
}

// intType describes an integer code type: its width and its predicates.
type intType struct {
	bits   int
	valid  func(uint64) bool
	str    func(uint64) string
	checks []func(uint64) bool // Check* helpers: true = accepted
}

type strType struct {
	valid  func(string) bool
	checks []func(string) bool
}

var versions = []p.ProtocolVersion{p.ProtocolVersion2, p.ProtocolVersion3, p.ProtocolVersion4, p.ProtocolVersion5, p.ProtocolVersionDse1, p.ProtocolVersionDse2}

func intTypes() map[string]intType {
	ok := func(err error) bool { return err == nil }
	return map[string]intType{
		"ProtocolVersion": {8, func(v uint64) bool { return p.ProtocolVersion(v).IsSupported() }, func(v uint64) string { return p.ProtocolVersion(v).String() },
			[]func(uint64) bool{func(v uint64) bool { return ok(p.CheckSupportedProtocolVersion(p.ProtocolVersion(v))) }}},
		"OpCode": {8, func(v uint64) bool { return p.OpCode(v).IsValid() }, func(v uint64) string { return p.OpCode(v).String() },
			[]func(uint64) bool{func(v uint64) bool { return ok(p.CheckValidOpCode(p.OpCode(v))) }}},
		"ResultType": {32, func(v uint64) bool { return p.ResultType(v).IsValid() }, func(v uint64) string { return p.ResultType(v).String() },
			[]func(uint64) bool{func(v uint64) bool { return ok(p.CheckValidResultType(p.ResultType(v))) }}},
		"ErrorCode": {32, func(v uint64) bool { return p.ErrorCode(v).IsValid() }, func(v uint64) string { return p.ErrorCode(v).String() }, nil},
		"ConsistencyLevel": {16, func(v uint64) bool { return p.ConsistencyLevel(v).IsValid() }, func(v uint64) string { return p.ConsistencyLevel(v).String() },
			[]func(uint64) bool{func(v uint64) bool { return ok(p.CheckValidConsistencyLevel(p.ConsistencyLevel(v))) }}},
		"DataTypeCode": {16, func(v uint64) bool { return p.DataTypeCode(v).IsValid() }, func(v uint64) string { return p.DataTypeCode(v).String() },
			[]func(uint64) bool{func(v uint64) bool { return ok(p.CheckValidDataTypeCode(p.DataTypeCode(v), p.ProtocolVersion4)) }}},
		"BatchType": {8, func(v uint64) bool { return p.BatchType(v).IsValid() }, func(v uint64) string { return p.BatchType(v).String() },
			[]func(uint64) bool{func(v uint64) bool { return ok(p.CheckValidBatchType(p.BatchType(v))) }}},
		"BatchChildType": {8, func(v uint64) bool { return p.BatchChildType(v).IsValid() }, func(v uint64) string { return p.BatchChildType(v).String() }, nil},
		"DseRevisionType": {32, func(v uint64) bool { return p.DseRevisionType(v).IsValid() }, func(v uint64) string { return p.DseRevisionType(v).String() },
			[]func(uint64) bool{func(v uint64) bool {
				return ok(p.CheckValidDseRevisionType(p.DseRevisionType(v), p.ProtocolVersionDse2))
			}}},
		"FailureCode": {16, func(v uint64) bool { return p.FailureCode(v).IsValid() }, func(v uint64) string { return p.FailureCode(v).String() },
			[]func(uint64) bool{func(v uint64) bool { return ok(p.CheckValidFailureCode(p.FailureCode(v))) }}},
	}
}

func strTypes() map[string]strType {
	ok := func(err error) bool { return err == nil }
	return map[string]strType{
		"WriteType":        {func(s string) bool { return p.WriteType(s).IsValid() }, []func(string) bool{func(s string) bool { return ok(p.CheckValidWriteType(p.WriteType(s))) }}},
		"EventType":        {func(s string) bool { return p.EventType(s).IsValid() }, []func(string) bool{func(s string) bool { return ok(p.CheckValidEventType(p.EventType(s))) }}},
		"SchemaChangeType": {func(s string) bool { return p.SchemaChangeType(s).IsValid() }, []func(string) bool{func(s string) bool { return ok(p.CheckValidSchemaChangeType(p.SchemaChangeType(s))) }}},
		"SchemaChangeTarget": {func(s string) bool { return p.SchemaChangeTarget(s).IsValid() }, []func(string) bool{func(s string) bool {
			return ok(p.CheckValidSchemaChangeTarget(p.SchemaChangeTarget(s), p.ProtocolVersion4))
		}}},
		"TopologyChangeType": {func(s string) bool { return p.TopologyChangeType(s).IsValid() }, []func(string) bool{func(s string) bool {
			return ok(p.CheckValidTopologyChangeType(p.TopologyChangeType(s), p.ProtocolVersion3))
		}}},
		"StatusChangeType": {func(s string) bool { return p.StatusChangeType(s).IsValid() }, []func(string) bool{func(s string) bool { return ok(p.CheckValidStatusChangeType(p.StatusChangeType(s))) }}},
		"Compression":      {func(s string) bool { return p.Compression(s).IsValid() }, nil},
	}
}

// types that carry no validity predicate (bit flags and the like): only listed in the evidence
var unchecked = map[string]bool{"HeaderFlag": true, "QueryFlag": true, "RowsFlag": true, "VariablesFlag": true, "PrepareFlag": true, "StreamId": true}

func neighbours(s string) []string {
	set := map[string]bool{}
	alpha := "ABCDEFGHIJKLMNOPQRSTUVWXYZ_abcdefghijklmnopqrstuvwxyz0123456789 "
	for i := 0; i <= len(s); i++ {
		for _, c := range alpha {
			set[s[:i]+string(c)+s[i:]] = true // insertion
			if i < len(s) {
				set[s[:i]+string(c)+s[i+1:]] = true // substitution
			}
		}
		if i < len(s) {
			set[s[:i]+s[i+1:]] = true // deletion
		}
		if i+1 < len(s) {
			set[s[:i]+string(s[i+1])+string(s[i])+s[i+2:]] = true // transposition
		}
	}
	set[strings.ToLower(s)] = true
	set[strings.ToUpper(s)] = true
	set[strings.Title(strings.ToLower(s))] = true
	set[" "+s] = true
	set[s+" "] = true
	set[s+"\x00"] = true
	delete(set, s)
	var out []string
	for k := range set {
		out = append(out, k)
	}
	sort.Strings(out)
	return out
}

func main() {
	c := vlib.New("C19", "model_checking")
	repo := os.Getenv("VERIF_REPO")
	if repo == "" {
		repo = "/repo"
	}
	decl := loadConstants(repo)
	if len(decl) < 100 {
		c.Broken("only %d constants extracted from primitive/*.go", len(decl))
	}
	byType := map[string][]declared{}
	for _, d := range decl {
		byType[d.Type] = append(byType[d.Type], d)
	}
	its, sts := intTypes(), strTypes()
	var notCovered []string
	var evals, states int64
	perType := map[string]interface{}{}
	for tn, ds := range byType {
		it, isInt := its[tn]
		st, isStr := sts[tn]
		switch {
		case isInt:
			want := map[uint64]string{}
			for _, d := range ds {
				want[d.Int] = d.Name
			}
			// declared constants: accepted, printed specifically
			for v, name := range want {
				if !it.valid(v) {
					c.Violation(map[string]string{"kind": "declared-rejected", "type": tn, "constant": name}, fmt.Sprintf("%s(%#x) is declared as %s but rejected by the validity check", tn, v, name), map[string]interface{}{"type": tn, "value": v})
				}
				if s := it.str(v); strings.Contains(s, "?") {
					c.Violation(map[string]string{"kind": "declared-unnamed", "type": tn, "constant": name}, fmt.Sprintf("%s(%#x) is declared as %s but prints as %q", tn, v, name, s), map[string]interface{}{"type": tn, "value": v})
				}
				for i, ck := range it.checks {
					if !ck(v) {
						c.Violation(map[string]string{"kind": "check-helper-rejects-declared", "type": tn, "constant": name, "helper": fmt.Sprint(i)}, fmt.Sprintf("Check helper %d of %s rejects declared %s", i, tn, name), map[string]interface{}{"type": tn, "value": v})
					}
				}
			}
			// whole domain: nothing undeclared is accepted
			n := uint64(1) << uint(it.bits)
			var bad uint64 = ^uint64(0)
			var nbad int64
			var mu sync.Mutex
			shards := 256
			near := map[uint64]bool{}
			for v := range want {
				for d := uint64(0); d < 4; d++ {
					near[v+d], near[v-d] = true, true
				}
				for b := 0; b < it.bits; b++ {
					near[v^(1<<uint(b))] = true
				}
			}
			vlib.ParFor(shards, func(sh int) {
				lo, hi := n/uint64(shards)*uint64(sh), n/uint64(shards)*uint64(sh+1)
				for v := lo; v < hi; v++ {
					acc := it.valid(v)
					// the Check helpers allocate an error for every rejected value: evaluate them on the
					// complete 16-bit range, around every declared value and on every single-bit value
					if v < 1<<16 || near[v] || v&(v-1) == 0 {
						for _, ck := range it.checks {
							if ck(v) != acc {
								mu.Lock()
								nbad++
								if v < bad {
									bad = v
								}
								mu.Unlock()
							}
						}
					}
					if acc {
						if _, decl := want[v]; !decl {
							mu.Lock()
							nbad++
							if v < bad {
								bad = v
							}
							mu.Unlock()
						}
					}
				}
				atomic.AddInt64(&evals, int64(hi-lo))
			})
			states += int64(n)
			if nbad > 0 {
				c.Violation(map[string]string{"kind": "undeclared-accepted", "type": tn}, fmt.Sprintf("%d values of %s: undeclared but accepted by IsValid, or a Check helper disagrees with IsValid; smallest %#x (prints %q)", nbad, tn, bad, it.str(bad)), map[string]interface{}{"type": tn, "value": bad})
			}
			perType[tn] = map[string]interface{}{"declared": len(want), "domain": n}
		case isStr:
			want := map[string]string{}
			for _, d := range ds {
				want[d.Str] = d.Name
			}
			cands := map[string]bool{"": true}
			for s := range want {
				for _, nb := range neighbours(s) {
					cands[nb] = true
				}
			}
			alpha := "ABCDEFGHIJKLMNOPQRSTUVWXYZ_"
			for _, a := range alpha {
				cands[string(a)] = true
				for _, b := range alpha {
					cands[string(a)+string(b)] = true
				}
			}
			for s, name := range want {
				if !st.valid(s) {
					c.Violation(map[string]string{"kind": "declared-rejected", "type": tn, "constant": name}, fmt.Sprintf("%s(%q) is declared as %s but rejected by the validity check", tn, s, name), map[string]interface{}{"type": tn, "value": s})
				}
				for i, ck := range st.checks {
					if !ck(s) {
						c.Violation(map[string]string{"kind": "check-helper-rejects-declared", "type": tn, "constant": name, "helper": fmt.Sprint(i)}, fmt.Sprintf("Check helper of %s rejects declared %s", tn, name), map[string]interface{}{"type": tn, "value": s})
					}
				}
			}
			for s := range cands {
				if _, d := want[s]; d {
					continue
				}
				evals++
				acc := st.valid(s)
				for _, ck := range st.checks {
					if ck(s) {
						acc = true
					}
				}
				if acc {
					c.Violation(map[string]string{"kind": "undeclared-accepted", "type": tn}, fmt.Sprintf("undeclared %s(%q) is accepted", tn, s), map[string]interface{}{"type": tn, "value": s})
				}
			}
			states += int64(len(cands))
			perType[tn] = map[string]interface{}{"declared": len(want), "candidates": len(cands)}
		default:
			if !unchecked[tn] {
				notCovered = append(notCovered, tn)
			}
		}
	}
	// ---- opcodes: exactly one of request / response ----
	for v := 0; v < 256; v++ {
		o := p.OpCode(v)
		req, resp := o.IsRequest(), o.IsResponse()
		evals++
		if o.IsValid() && req == resp {
			c.Violation(map[string]string{"kind": "opcode-direction", "opcode": fmt.Sprintf("%#x", v)}, fmt.Sprintf("valid %v: IsRequest=%v IsResponse=%v", o, req, resp), v)
		}
		if !o.IsValid() && (req || resp) {
			c.Violation(map[string]string{"kind": "opcode-direction-undeclared", "opcode": fmt.Sprintf("%#x", v)}, fmt.Sprintf("invalid opcode %#x classified as request=%v response=%v", v, req, resp), v)
		}
		if (p.CheckRequestOpCode(o) == nil) != req || (p.CheckResponseOpCode(o) == nil) != resp {
			c.Violation(map[string]string{"kind": "opcode-check-helper", "opcode": fmt.Sprintf("%#x", v)}, fmt.Sprintf("CheckRequestOpCode/CheckResponseOpCode disagree with IsRequest/IsResponse for %#x", v), v)
		}
		if o.IsDse() && !o.IsValid() {
			c.Violation(map[string]string{"kind": "opcode-dse-undeclared", "opcode": fmt.Sprintf("%#x", v)}, fmt.Sprintf("undeclared opcode %#x classified as DSE", v), v)
		}
	}
	// ---- versions: classification and capability predicates ----
	checkVersions(c, &evals)
	checkVersionLists(c, &evals)
	checkVersionedHelpers(c, &evals)
	// every declared string constant of the version-dependent families is covered by the reference table
	sort.Strings(notCovered)
	c.Set("types_without_check", notCovered)
	c.Set("declared_constants", len(decl))
	c.Set("per_type", perType)
	c.Set("states", states)
	c.Set("transitions", evals)
	c.Set("traces_validated_against_impl", evals)
	c.Set("evaluations", evals)
	c.Set("distinct_nontrivial", len(decl))
	c.Set("rule", "states = values of the code-type domains evaluated (complete 8/16/32-bit domains; for string enumerations the declared values, all their one-edit/case neighbours and all strings of length<=2 over [A-Z_]); distinct_nontrivial = declared constants extracted from the current source")
	for i, d := range decl {
		if i%37 == 0 {
			c.Sample(d)
		}
	}
	c.Assumptions = []string{"the reference capability table (refcaps in this file) was written from the 'Changes from' sections of specs/*.spec; cells the specs leave ambiguous (MOVED_NODE on v4+) are not asserted"}
	c.Finish()
}
