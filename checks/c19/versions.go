package main

import (
	"fmt"
	"sort"
	"strings"

	p "github.com/datastax/go-cassandra-native-protocol/primitive"

	"verif/vlib"
)

// refcaps: (feature, versions that have it), written from the "Changes from" sections and the
// message definitions of specs/native_protocol_v2..v5.spec and specs/dse_protocol_v1..v2.spec.
// Order of versions: v2 v3 v4 v5 dse1 dse2.
type cap struct {
	name string
	have [6]bool
	got  func(v p.ProtocolVersion) bool
}

func T(v2, v3, v4, v5, d1, d2 bool) [6]bool { return [6]bool{v2, v3, v4, v5, d1, d2} }

func refcaps() []cap {
	const y, n = true, false
	qf := func(f p.QueryFlag) func(p.ProtocolVersion) bool {
		return func(v p.ProtocolVersion) bool { return v.SupportsQueryFlag(f) }
	}
	return []cap{
		{"compression NONE", T(y, y, y, y, y, y), func(v p.ProtocolVersion) bool { return v.SupportsCompression(p.CompressionNone) }},
		{"compression LZ4", T(y, y, y, y, y, y), func(v p.ProtocolVersion) bool { return v.SupportsCompression(p.CompressionLz4) }},
		{"compression SNAPPY (removed in v5)", T(y, y, y, n, y, y), func(v p.ProtocolVersion) bool { return v.SupportsCompression(p.CompressionSnappy) }},
		{"batch flags (v3)", T(n, y, y, y, y, y), func(v p.ProtocolVersion) bool { return v.SupportsBatchQueryFlags() }},
		{"prepare flags/keyspace (v5, DSE v2)", T(n, n, n, y, n, y), func(v p.ProtocolVersion) bool { return v.SupportsPrepareFlags() }},
		{"query flag VALUES", T(y, y, y, y, y, y), qf(p.QueryFlagValues)},
		{"query flag SKIP_METADATA", T(y, y, y, y, y, y), qf(p.QueryFlagSkipMetadata)},
		{"query flag PAGE_SIZE", T(y, y, y, y, y, y), qf(p.QueryFlagPageSize)},
		{"query flag PAGING_STATE", T(y, y, y, y, y, y), qf(p.QueryFlagPagingState)},
		{"query flag SERIAL_CONSISTENCY", T(y, y, y, y, y, y), qf(p.QueryFlagSerialConsistency)},
		{"query flag DEFAULT_TIMESTAMP (v3)", T(n, y, y, y, y, y), qf(p.QueryFlagDefaultTimestamp)},
		{"query flag VALUE_NAMES (v3)", T(n, y, y, y, y, y), qf(p.QueryFlagValueNames)},
		{"query flag WITH_KEYSPACE (v5, DSE v2)", T(n, n, n, y, n, y), qf(p.QueryFlagWithKeyspace)},
		{"query flag NOW_IN_SECONDS (v5)", T(n, n, n, y, n, n), qf(p.QueryFlagNowInSeconds)},
		{"query flag DSE PAGE_SIZE_BYTES", T(n, n, n, n, y, y), qf(p.QueryFlagDsePageSizeBytes)},
		{"query flag DSE CONTINUOUS_PAGING", T(n, n, n, n, y, y), qf(p.QueryFlagDseWithContinuousPagingOptions)},
		{"result metadata id (v5, DSE v2)", T(n, n, n, y, n, y), func(v p.ProtocolVersion) bool { return v.SupportsResultMetadataId() }},
		{"failure reason map (v5, DSE)", T(n, n, n, y, y, y), func(v p.ProtocolVersion) bool { return v.SupportsReadWriteFailureReasonMap() }},
		{"write-timeout contentions (v5)", T(n, n, n, y, n, n), func(v p.ProtocolVersion) bool { return v.SupportsWriteTimeoutContentions() }},
		{"schema change target KEYSPACE", T(y, y, y, y, y, y), func(v p.ProtocolVersion) bool { return v.SupportsSchemaChangeTarget(p.SchemaChangeTargetKeyspace) }},
		{"schema change target TABLE", T(y, y, y, y, y, y), func(v p.ProtocolVersion) bool { return v.SupportsSchemaChangeTarget(p.SchemaChangeTargetTable) }},
		{"schema change target TYPE (v3)", T(n, y, y, y, y, y), func(v p.ProtocolVersion) bool { return v.SupportsSchemaChangeTarget(p.SchemaChangeTargetType) }},
		{"schema change target FUNCTION (v4)", T(n, n, y, y, y, y), func(v p.ProtocolVersion) bool { return v.SupportsSchemaChangeTarget(p.SchemaChangeTargetFunction) }},
		{"schema change target AGGREGATE (v4)", T(n, n, y, y, y, y), func(v p.ProtocolVersion) bool { return v.SupportsSchemaChangeTarget(p.SchemaChangeTargetAggregate) }},
		{"topology change NEW_NODE", T(y, y, y, y, y, y), func(v p.ProtocolVersion) bool { return v.SupportsTopologyChangeType(p.TopologyChangeTypeNewNode) }},
		{"topology change REMOVED_NODE", T(y, y, y, y, y, y), func(v p.ProtocolVersion) bool { return v.SupportsTopologyChangeType(p.TopologyChangeTypeRemovedNode) }},
		{"DSE revise CANCEL_CONTINUOUS_PAGING", T(n, n, n, n, y, y), func(v p.ProtocolVersion) bool {
			return v.SupportsDseRevisionType(p.DseRevisionTypeCancelContinuousPaging)
		}},
		{"DSE revise MORE_CONTINUOUS_PAGES (DSE v2)", T(n, n, n, n, n, y), func(v p.ProtocolVersion) bool { return v.SupportsDseRevisionType(p.DseRevisionTypeMoreContinuousPages) }},
		{"modern framing (v5 only)", T(n, n, n, y, n, n), func(v p.ProtocolVersion) bool { return v.SupportsModernFramingLayout() }},
		{"unset values (v4)", T(n, n, y, y, y, y), func(v p.ProtocolVersion) bool { return v.SupportsUnsetValues() }},
		{"4-byte collection lengths (v3)", T(n, y, y, y, y, y), func(v p.ProtocolVersion) bool { return v.Uses4BytesCollectionLength() }},
		{"4-byte query flags (v5, DSE)", T(n, n, n, y, y, y), func(v p.ProtocolVersion) bool { return v.Uses4BytesQueryFlags() }},
		{"9-byte frame header (v3)", T(n, y, y, y, y, y), func(v p.ProtocolVersion) bool { return v.FrameHeaderLengthInBytes() == 9 }},
		{"8-byte frame header (v2)", T(y, n, n, n, n, n), func(v p.ProtocolVersion) bool { return v.FrameHeaderLengthInBytes() == 8 }},
		{"is OSS", T(y, y, y, y, n, n), func(v p.ProtocolVersion) bool { return v.IsOss() }},
		{"is DSE", T(n, n, n, n, y, y), func(v p.ProtocolVersion) bool { return v.IsDse() }},
		{"is beta", T(n, n, n, n, n, n), func(v p.ProtocolVersion) bool { return v.IsBeta() }},
	}
}

func checkVersions(c *vlib.Check, evals *int64) {
	caps := refcaps()
	for _, cp := range caps {
		for i, v := range versions {
			*evals++
			var got bool
			if pv, site := vlib.Catch(func() { got = cp.got(v) }); pv != nil {
				c.Violation(map[string]string{"kind": "capability-panic", "feature": cp.name, "site": site}, fmt.Sprintf("capability predicate %q panics for %v: %v", cp.name, v, pv), nil)
				continue
			}
			if got != cp.have[i] {
				c.Violation(map[string]string{"kind": "capability-mismatch", "feature": cp.name, "version": v.String()}, fmt.Sprintf("capability %q for %v: library says %v, specification says %v", cp.name, v, got, cp.have[i]), map[string]interface{}{"feature": cp.name, "version": uint8(v)})
			}
		}
	}
	// the 250 unsupported version bytes: not supported, not classified, rejected by the Check helpers, no panic anywhere
	supported := map[p.ProtocolVersion]bool{}
	for _, v := range versions {
		supported[v] = true
	}
	lists := map[string][]p.ProtocolVersion{"all": p.SupportedProtocolVersions(), "oss": p.SupportedOssProtocolVersions(), "dse": p.SupportedDseProtocolVersions(), "beta": p.SupportedBetaProtocolVersions(), "nonbeta": p.SupportedNonBetaProtocolVersions()}
	for name, l := range lists {
		for _, v := range l {
			if !supported[v] {
				c.Violation(map[string]string{"kind": "supported-list-undeclared", "list": name}, fmt.Sprintf("Supported*ProtocolVersions(%s) contains undeclared version %#x", name, uint8(v)), nil)
			}
		}
	}
	for b := 0; b < 256; b++ {
		v := p.ProtocolVersion(b)
		if supported[v] {
			continue
		}
		*evals++
		if v.IsSupported() || v.IsOss() || v.IsDse() || v.IsBeta() || p.CheckSupportedProtocolVersion(v) == nil || p.CheckDseProtocolVersion(v) == nil {
			c.Violation(map[string]string{"kind": "undeclared-version-accepted"}, fmt.Sprintf("undeclared version %#x: IsSupported=%v IsOss=%v IsDse=%v IsBeta=%v CheckSupported=%v CheckDse=%v", b, v.IsSupported(), v.IsOss(), v.IsDse(), v.IsBeta(), p.CheckSupportedProtocolVersion(v) == nil, p.CheckDseProtocolVersion(v) == nil), b)
		}
		for _, cp := range caps {
			if pv, site := vlib.Catch(func() { cp.got(v) }); pv != nil {
				c.Violation(map[string]string{"kind": "capability-panic", "feature": cp.name, "site": site}, fmt.Sprintf("capability predicate %q panics for version %#x: %v", cp.name, b, pv), nil)
			}
		}
	}
	c.Set("capability_cells", len(caps)*len(versions))
}

// checkVersionLists: the helpers returning lists of versions are exercised as HISTORIES — every
// ordered pair of calls, each result compared with the list derived from the declared versions and
// then overwritten by the caller (a returned slice belongs to the caller) — and after every pair the
// support predicates are re-evaluated. A helper that hands out or filters in place a shared table
// corrupts what IsSupported consults; a single call on a fresh process never shows it.
func checkVersionLists(c *vlib.Check, evals *int64) {
	type op struct {
		name string
		call func() []p.ProtocolVersion
		want []p.ProtocolVersion
	}
	filter := func(f func(p.ProtocolVersion) bool) []p.ProtocolVersion {
		var out []p.ProtocolVersion
		for _, v := range versions {
			if f(v) {
				out = append(out, v)
			}
		}
		return out
	}
	isDse := func(v p.ProtocolVersion) bool { return v == p.ProtocolVersionDse1 || v == p.ProtocolVersionDse2 }
	ops := []op{
		{"SupportedProtocolVersions", p.SupportedProtocolVersions, filter(func(p.ProtocolVersion) bool { return true })},
		{"SupportedOssProtocolVersions", p.SupportedOssProtocolVersions, filter(func(v p.ProtocolVersion) bool { return !isDse(v) })},
		{"SupportedDseProtocolVersions", p.SupportedDseProtocolVersions, filter(isDse)},
		{"SupportedBetaProtocolVersions", p.SupportedBetaProtocolVersions, nil},
		{"SupportedNonBetaProtocolVersions", p.SupportedNonBetaProtocolVersions, filter(func(p.ProtocolVersion) bool { return true })},
	}
	for _, v := range versions {
		v := v
		ops = append(ops,
			op{fmt.Sprintf("SupportedProtocolVersionsGreaterThanOrEqualTo(%v)", v), func() []p.ProtocolVersion { return p.SupportedProtocolVersionsGreaterThanOrEqualTo(v) }, filter(func(w p.ProtocolVersion) bool { return w >= v })},
			op{fmt.Sprintf("SupportedProtocolVersionsGreaterThan(%v)", v), func() []p.ProtocolVersion { return p.SupportedProtocolVersionsGreaterThan(v) }, filter(func(w p.ProtocolVersion) bool { return w > v })},
			op{fmt.Sprintf("SupportedProtocolVersionsLesserThanOrEqualTo(%v)", v), func() []p.ProtocolVersion { return p.SupportedProtocolVersionsLesserThanOrEqualTo(v) }, filter(func(w p.ProtocolVersion) bool { return w <= v })},
			op{fmt.Sprintf("SupportedProtocolVersionsLesserThan(%v)", v), func() []p.ProtocolVersion { return p.SupportedProtocolVersionsLesserThan(v) }, filter(func(w p.ProtocolVersion) bool { return w < v })},
		)
	}
	same := func(a, b []p.ProtocolVersion) bool {
		x := append([]p.ProtocolVersion{}, a...)
		y := append([]p.ProtocolVersion{}, b...)
		sort.Slice(x, func(i, j int) bool { return x[i] < x[j] })
		sort.Slice(y, func(i, j int) bool { return y[i] < y[j] })
		if len(x) != len(y) {
			return false
		}
		for i := range x {
			if x[i] != y[i] {
				return false
			}
		}
		return true
	}
	reported := map[string]bool{}
	step := func(o op, history string) {
		*evals++
		got := o.call()
		if !same(got, o.want) && !reported[o.name] {
			reported[o.name] = true
			c.Violation(map[string]string{"kind": "version-list", "helper": strings.SplitN(o.name, "(", 2)[0]}, fmt.Sprintf("after %s: %s returns %v, the declared versions give %v", history, o.name, got, o.want), history)
		}
		for i := range got {
			got[i] = 0xEE // the caller owns the returned slice
		}
	}
	pairs := 0
	for _, a := range ops {
		for _, b := range ops {
			h := "[" + a.name + ", scribble, " + b.name + ", scribble]"
			step(a, "a fresh call")
			step(b, "["+a.name+", scribble]")
			pairs++
			for _, v := range versions {
				*evals++
				if (!v.IsSupported() || p.CheckSupportedProtocolVersion(v) != nil) && !reported["supported/"+v.String()] {
					reported["supported/"+v.String()] = true
					c.Violation(map[string]string{"kind": "declared-version-unsupported", "version": v.String()}, fmt.Sprintf("after the calls %s the declared version %v is no longer supported (IsSupported=%v)", h, v, v.IsSupported()), h)
				}
			}
		}
	}
	c.Set("version_list_histories", pairs)
}

// checkVersionedHelpers: the Check* helpers that take a value AND a version combine "declared" with
// "defined for that version": for every declared value and every declared version the helper must
// agree with the capability table written from the specs, and an undeclared value is refused on
// every version.
func checkVersionedHelpers(c *vlib.Check, evals *int64) {
	const y, n = true, false
	type row struct {
		helper string
		value  string
		have   [6]bool
		check  func(v p.ProtocolVersion) error
	}
	var rows []row
	add := func(helper, value string, have [6]bool, check func(v p.ProtocolVersion) error) {
		rows = append(rows, row{helper, value, have, check})
	}
	never := T(n, n, n, n, n, n)
	for _, t := range []struct {
		t    p.SchemaChangeTarget
		have [6]bool
	}{{p.SchemaChangeTargetKeyspace, T(y, y, y, y, y, y)}, {p.SchemaChangeTargetTable, T(y, y, y, y, y, y)}, {p.SchemaChangeTargetType, T(n, y, y, y, y, y)},
		{p.SchemaChangeTargetFunction, T(n, n, y, y, y, y)}, {p.SchemaChangeTargetAggregate, T(n, n, y, y, y, y)}, {p.SchemaChangeTarget("VIEW"), never}, {p.SchemaChangeTarget(""), never}} {
		t := t
		add("CheckValidSchemaChangeTarget", string(t.t), t.have, func(v p.ProtocolVersion) error { return p.CheckValidSchemaChangeTarget(t.t, v) })
	}
	for _, t := range []struct {
		t    p.TopologyChangeType
		have [6]bool
	}{{p.TopologyChangeTypeNewNode, T(y, y, y, y, y, y)}, {p.TopologyChangeTypeRemovedNode, T(y, y, y, y, y, y)}, {p.TopologyChangeType("NEW"), never}, {p.TopologyChangeType(""), never}} {
		t := t
		add("CheckValidTopologyChangeType", string(t.t), t.have, func(v p.ProtocolVersion) error { return p.CheckValidTopologyChangeType(t.t, v) })
	}
	for _, t := range []struct {
		t    p.DseRevisionType
		have [6]bool
	}{{p.DseRevisionTypeCancelContinuousPaging, T(n, n, n, n, y, y)}, {p.DseRevisionTypeMoreContinuousPages, T(n, n, n, n, n, y)}, {p.DseRevisionType(0), never}, {p.DseRevisionType(3), never}, {p.DseRevisionType(0xFFFFFFFF), never}} {
		t := t
		add("CheckValidDseRevisionType", fmt.Sprint(uint64(t.t)), t.have, func(v p.ProtocolVersion) error { return p.CheckValidDseRevisionType(t.t, v) })
	}
	for _, r := range rows {
		for i, v := range versions {
			*evals++
			var err error
			if pv, site := vlib.Catch(func() { err = r.check(v) }); pv != nil {
				c.Violation(map[string]string{"kind": "capability-panic", "feature": r.helper, "site": site}, fmt.Sprintf("%s(%s, %v) panics: %v", r.helper, r.value, v, pv), nil)
				continue
			}
			if (err == nil) != r.have[i] {
				c.Violation(map[string]string{"kind": "versioned-check-mismatch", "helper": r.helper, "version": v.String()}, fmt.Sprintf("%s(%q, %v) returns err=%v; the specification of that version %s this value", r.helper, r.value, v, err, map[bool]string{true: "defines", false: "does not define"}[r.have[i]]), map[string]interface{}{"helper": r.helper, "value": r.value, "version": uint8(v)})
			}
		}
	}
	c.Set("versioned_check_cells", len(rows)*len(versions))
}
