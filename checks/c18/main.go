// C18 — codecs can be shared by concurrent goroutines.
// E2 on access-instrumented packages: every read/write of a package-level variable or codec /
// compressor field in frame, segment, message, datacodec, compression/*, crc, primitive and
// datatype is a scheduling point; all interleavings of 2 (quick) / 3 (thorough) threads within
// the preemption bound; each thread's results must equal the same calls made sequentially.
package main

import (
	"encoding/json"
	"fmt"
	"os"
	"os/exec"
	"path/filepath"
	"strings"

	"github.com/datastax/go-cassandra-native-protocol/verifrt/sched"

	"verif/c18ops"
	"verif/engine/explore"
	"verif/hmodel"
	"verif/vlib"
)

func harness(sc c18ops.Scenario, bound int) *explore.Harness {
	// sequential reference, computed outside any execution (instrumentation points are no-ops there)
	want := map[string]string{}
	ref := sc.Threads
	if sc.Fresh != nil {
		ref = sc.Fresh() // the reference runs on instances of its own
	}
	for ti, th := range ref {
		for _, op := range th {
			want[fmt.Sprintf("%d/%s", ti, op.Name)] = op.Run()
		}
	}
	return &explore.Harness{Name: sc.Name, Cost: "preempt", Bound: bound, GlobalState: true, Param: fmt.Sprintf("%d threads x %d ops on shared codec instances", len(sc.Threads), len(sc.Threads[0])), Body: func(o *explore.Obs) {
		// prologue: all operations once, one after the other, without scheduling points. Package-level state of
		// the code under test (caches, pools) outlives an execution; this brings it to the same state at the start
		// of every execution, whatever the previous schedule left behind - and it is the sequential run itself
		sched.Quiet(func() {
			for ti, th := range sc.Threads {
				for _, op := range th {
					if got, w := op.Run(), want[fmt.Sprintf("%d/%s", ti, op.Name)]; got != w {
						o.Fail("C18:sequential-result-unstable", op.Name, "thread %d, %s: the same call, made sequentially again, gives a different result\n now:    %s\n before: %s", ti, op.Name, clip(got), clip(w))
					}
				}
			}
		})
		threads := sc.Threads
		if sc.Fresh != nil {
			sched.Quiet(func() { threads = sc.Fresh() }) // new instances: their first use is the concurrent one
		}
		running := len(threads)
		for ti, th := range threads {
			ti, th := ti, th
			sched.GoNamed(fmt.Sprintf("user%d", ti), func() {
				defer func() { running-- }()
				for _, op := range th {
					got := op.Run()
					if w := want[fmt.Sprintf("%d/%s", ti, op.Name)]; got != w {
						o.Fail("C18:result-differs", op.Name, "thread %d, %s: concurrent result differs from the sequential one\n concurrent: %s\n sequential: %s", ti, op.Name, clip(got), clip(w))
					}
				}
			})
		}
		sched.Op("join", 0, func() bool { return running == 0 })
		o.Logf("ok")
	}}
}

func clip(s string) string {
	if len(s) > 300 {
		return s[:300] + "…"
	}
	return s
}

func main() {
	for _, three := range []bool{false, true} {
		for _, sc := range c18ops.Scenarios(three) {
			if three {
				sc.Name += "-3threads"
			}
			explore.Register(harness(sc, 2))
		}
	}
	if hmodel.Dispatch() {
		return
	}
	c := vlib.New("C18", "model_checking")
	t := &hmodel.Totals{}
	for _, sc := range c18ops.Scenarios(false) {
		b := 2
		if c.Thorough() {
			b = 3
		}
		hmodel.RunHarness(c, "C18", t, sc.Name, b, "panic", "deadlock", "livelock")
	}
	if c.Thorough() {
		for _, sc := range c18ops.Scenarios(true) {
			hmodel.RunHarness(c, "C18", t, sc.Name+"-3threads", 2, "panic", "deadlock", "livelock")
		}
	}
	// instrumentation statistics: how many sites exist, so that "nothing to interleave" is visible
	if b, err := os.ReadFile(filepath.Join(buildDir(), "ov-access", "instr_stats.json")); err == nil {
		var st map[string]int
		if json.Unmarshal(b, &st) == nil {
			c.Set("instrumented_access_sites", st["access_sites"])
		}
	}
	raceSupplement(c)
	hmodel.Finish(c, t, "a schedule is a vector of scheduler choices over threads that each run encode/decode operations on shared codec instances; scheduling points are the instrumented accesses to package-level variables and codec/compressor fields; oracle: per-thread results equal the sequential run")
}

func buildDir() string {
	if b := os.Getenv("VERIF_BUILD"); b != "" {
		return b
	}
	return filepath.Join(vlib.Root, ".build")
}

// raceSupplement runs the same operation bodies free-running under the race detector. It is a
// sampling supplement (labelled as such in the evidence); a reported race is a real violation of
// "without data races".
func raceSupplement(c *vlib.Check) {
	bin := filepath.Join(buildDir(), "c18race.bin")
	args := []string{"build"}
	if mf := os.Getenv("VERIF_MODFLAG"); mf != "" {
		args = append(args, mf) // a run against a scratch copy of the repository (vcheck, VERIF_REPO)
	}
	cmd := exec.Command("go", append(args, "-race", "-o", bin, "./checks/c18race")...)
	cmd.Dir = vlib.Root
	if out, err := cmd.CombinedOutput(); err != nil {
		c.Set("race_supplement", "not run: build failed: "+strings.TrimSpace(string(out)))
		return
	}
	iters := "300"
	if c.Thorough() {
		iters = "3000"
	}
	run := exec.Command(bin, iters)
	run.Env = append(os.Environ(), "GORACE=halt_on_error=0 exitcode=66")
	out, err := run.CombinedOutput()
	s := string(out)
	if strings.Contains(s, "WARNING: DATA RACE") {
		site := "?"
		for _, l := range strings.Split(s, "\n") {
			l = strings.TrimSpace(l)
			if strings.Contains(l, "go-cassandra-native-protocol/") && strings.Contains(l, "(") && !strings.HasPrefix(l, "/") {
				site = l[strings.LastIndex(l, "/")+1:]
				if i := strings.Index(site, "("); i > 0 {
					site = site[:i]
				}
				break
			}
		}
		c.Violation(map[string]string{"kind": "data-race", "site": site, "engine": "race-supplement"}, "the race detector reports a data race while goroutines use shared codecs (supplementary free-running run):\n"+clip(s), map[string]interface{}{"cmd": "go build -race ./checks/c18race && c18race.bin " + iters})
	} else if strings.Contains(s, "MISMATCH") {
		c.Violation(map[string]string{"kind": "C18:result-differs", "engine": "race-supplement"}, "free-running goroutines obtained results that differ from the sequential run:\n"+clip(s), nil)
	} else if err != nil {
		c.Set("race_supplement", "run failed: "+err.Error()+": "+clip(s))
		return
	}
	c.Set("race_supplement", "free-running -race run of the same bodies, "+iters+" iterations per scenario: "+strings.TrimSpace(lastLine(s))+" (sampling; supplements, never replaces, the exhaustive part)")
}

func lastLine(s string) string {
	l := strings.Split(strings.TrimSpace(s), "\n")
	return l[len(l)-1]
}
