// C07 — corrupted segments are rejected, never delivered.
// E1 as fault enumeration: every bit-flip pattern of weight 1..7 over header+CRC-24, and single
// flips, pairs and bursts over payload+CRC-32, applied to valid segments and fed to the real
// DecodeSegment.
package main

import (
	"bytes"
	"fmt"
	"math/bits"
	"sort"
	"sync"
	"sync/atomic"

	"github.com/datastax/go-cassandra-native-protocol/compression/lz4"
	"github.com/datastax/go-cassandra-native-protocol/crc"
	"github.com/datastax/go-cassandra-native-protocol/segment"

	"verif/gen"
	"verif/ref/refseg"
	"verif/vlib"
)

var plain = segment.NewCodec()
var lz = segment.NewCodecWithCompression(lz4.Compressor{})

// accepted reports whether the real decoder accepts wire (and what it returned).
func accepted(codec segment.Codec, wire []byte) (bool, *segment.Segment, string) {
	var seg *segment.Segment
	var err error
	if pv, site := vlib.Catch(func() { seg, err = codec.DecodeSegment(bytes.NewReader(wire)) }); pv != nil {
		return true, nil, "panic in " + site + ": " + fmt.Sprint(pv)
	}
	if err == nil {
		return true, seg, ""
	}
	if seg != nil {
		return true, seg, "error returned together with a segment"
	}
	return false, nil, ""
}

// enc encodes a segment with the library's own encoder (the corruption is applied to what the
// library itself emits); random payloads are incompressible, so the LZ4 codec sends them raw.
func enc(c *vlib.Check, codec segment.Codec, payload []byte, sc bool) []byte {
	buf := &bytes.Buffer{}
	if err := codec.EncodeSegment(&segment.Segment{Header: &segment.Header{IsSelfContained: sc}, Payload: &segment.Payload{UncompressedData: append([]byte{}, payload...)}}, buf); err != nil {
		c.Broken("cannot encode a base segment: %v", err)
	}
	return buf.Bytes()
}

// combos calls f for every subset of {0..n-1} of size w (as a bit mask).
func combos(n, w int, f func(mask uint64)) {
	idx := make([]int, w)
	for i := range idx {
		idx[i] = i
	}
	for {
		var m uint64
		for _, i := range idx {
			m |= 1 << uint(i)
		}
		f(m)
		i := w - 1
		for i >= 0 && idx[i] == n-w+i {
			i--
		}
		if i < 0 {
			return
		}
		idx[i]++
		for j := i + 1; j < w; j++ {
			idx[j] = idx[j-1] + 1
		}
	}
}

func flipMask(b []byte, mask uint64) {
	for i := 0; mask != 0; i++ {
		b[i] ^= byte(mask)
		mask >>= 8
	}
}

func main() {
	c := vlib.New("C07", "fault_enumeration")
	var evals, direct int64
	// ------------------------------------------------------------------ header + CRC-24
	type base struct {
		name  string
		codec segment.Codec
		wire  []byte
		hbits int
	}
	var bases []base
	for _, n := range []int{0, 1, 131071, 0x15555} {
		for _, sc := range []bool{true, false} {
			p := gen.Payload(n, "random")
			bases = append(bases, base{fmt.Sprintf("none/len%d/sc%v", n, sc), plain, enc(c, plain, p, sc), 48})
			bases = append(bases, base{fmt.Sprintf("lz4/len%d/sc%v", n, sc), lz, enc(c, lz, p, sc), 64})
		}
	}
	// the CRC-32 used must be the seeded IEEE CRC (detection guarantees are those of that code)
	for _, n := range []int{0, 1, 2, 3, 4, 5, 63, 64, 65, 1000, 65535, 65536, 131071} {
		for _, class := range []string{"zeros", "random", "text"} {
			p := gen.Payload(n, class)
			evals++
			if crc.ChecksumIEEE(p) != refseg.Crc32(p) {
				c.Violation(map[string]string{"kind": "crc32-differs-from-spec"}, fmt.Sprintf("ChecksumIEEE differs from the seeded CRC-32 for a %s payload of %d bytes", class, n), n)
			}
		}
	}
	// ------------------------------------------------------------------ large payloads: pairs and bursts through syndromes
	// For a payload of n bytes the syndrome of bit i is s_i = CRC(m ^ e_i) ^ CRC(m), computed with the
	// library's own ChecksumIEEE for EVERY bit of the payload; the 32 bits of the transmitted CRC-32
	// have the unit syndromes. If the checksum is affine (spot-checked below), a corruption pattern P
	// is undetected iff the XOR of its syndromes is 0. So: all syndromes non-zero and pairwise distinct
	// <=> every single flip and every PAIR of flips anywhere is detected; every window of 32
	// consecutive syndromes linearly independent <=> every burst of <= 32 bits at every offset is
	// detected. That is all n*8+32 single flips, all ~5*10^11 pairs and all 2^31 burst shapes per
	// offset for n = 131071 - not reachable by direct enumeration. Every dependency found is turned
	// into a concrete corrupted segment and reported only if the real DecodeSegment accepts it.
	synSizes := []int{65536}
	if c.Thorough() {
		synSizes = []int{1024, 4096, 65535, 65536, 65537, 100000, 131070, 131071}
	}
	var synBits, synWindows, synPairsCovered, premiseFailed, affinityChecks int64
	for _, n := range synSizes {
		if c.Expired("the syndrome analysis of large payloads") {
			break
		}
		m := gen.Payload(n, "random")
		c0 := crc.ChecksumIEEE(m)
		nb := n*8 + 32
		syn := make([]uint32, nb)
		vlib.ParFor(64, func(sh int) {
			w := append([]byte{}, m...)
			for by := sh; by < n; by += 64 {
				for t := 0; t < 8; t++ {
					w[by] ^= 1 << uint(t)
					syn[by*8+t] = crc.ChecksumIEEE(w) ^ c0
					w[by] ^= 1 << uint(t)
				}
			}
		})
		for k := 0; k < 32; k++ {
			syn[n*8+k] = 1 << uint(k) // CRC-32 is transmitted little-endian: wire bit k of the field is bit k of the value
		}
		atomic.AddInt64(&evals, int64(n*8))
		synBits += int64(nb)
		synPairsCovered += int64(nb) * int64(nb-1) / 2
		wire := enc(c, plain, m, true)
		confirm := func(desc string, positions []int) {
			w := append([]byte{}, wire...)
			for _, b := range positions {
				w[6+b/8] ^= 1 << uint(b%8)
			}
			if ok, seg, why := accepted(plain, w); ok {
				c.Violation(map[string]string{"kind": "payload-corruption-accepted", "pattern": desc, "format": "none"}, fmt.Sprintf("segment (none, payload %d bytes) with %s at bits %v of payload+CRC-32 is accepted %s (segment returned: %v)", n, desc, positions, why, seg != nil), map[string]interface{}{"payload_len": n, "pattern": desc, "bits": positions})
			} else {
				atomic.AddInt64(&premiseFailed, 1) // the checksum is not affine there: the reduction does not apply
			}
		}
		// singles and pairs: sort positions by syndrome, equal neighbours collide
		idx := make([]int32, nb)
		for i := range idx {
			idx[i] = int32(i)
		}
		sort.Slice(idx, func(a, b int) bool {
			if syn[idx[a]] != syn[idx[b]] {
				return syn[idx[a]] < syn[idx[b]]
			}
			return idx[a] < idx[b]
		})
		reported := 0
		for k := 0; k < nb && reported < 8; k++ {
			if syn[idx[k]] == 0 {
				confirm("single bit flip (zero syndrome)", []int{int(idx[k])})
				reported++
			} else if k > 0 && syn[idx[k]] == syn[idx[k-1]] {
				confirm("two bit flips", []int{int(idx[k-1]), int(idx[k])})
				reported++
			}
		}
		// bursts: every window of 32 consecutive syndromes must be linearly independent
		var depMu sync.Mutex
		var deps [][]int
		vlib.ParFor(256, func(sh int) {
			for i := sh; i+1 < nb; i += 256 {
				var basis, combo [32]uint32 // basis[b]: vector with leading bit b; combo: which window members made it
				end := i + 32
				if end > nb {
					end = nb
				}
				for j := i; j < end; j++ {
					v, cm := syn[j], uint32(1)<<uint(j-i)
					for v != 0 {
						b := 31 - bits.LeadingZeros32(v)
						if basis[b] == 0 {
							basis[b], combo[b] = v, cm
							break
						}
						v ^= basis[b]
						cm ^= combo[b]
					}
					if v == 0 {
						var pos []int
						for k := 0; k < 32; k++ {
							if cm&(1<<uint(k)) != 0 {
								pos = append(pos, i+k)
							}
						}
						depMu.Lock()
						if len(deps) < 8 {
							deps = append(deps, pos)
						}
						depMu.Unlock()
						break
					}
				}
			}
		})
		synWindows += int64(nb - 1)
		for _, pos := range deps {
			confirm(fmt.Sprintf("burst of %d bits", pos[len(pos)-1]-pos[0]+1), pos)
		}
		// affinity, the premise: CRC(m ^ e_i ^ e_j) == CRC(m) ^ s_i ^ s_j for structured pairs (neighbours, byte,
		// word, 4 KiB, half-length and end-relative distances) from every 97th bit
		w := append([]byte{}, m...)
		for i := 0; i < n*8; i += 97 {
			for _, d := range []int{1, 7, 8, 31, 32, 64, 4096 * 8, n * 4, n*8 - 1 - 2*i} {
				j := i + d
				if j <= i || j >= n*8 {
					continue
				}
				w[i/8] ^= 1 << uint(i%8)
				w[j/8] ^= 1 << uint(j%8)
				got := crc.ChecksumIEEE(w)
				w[i/8] ^= 1 << uint(i%8)
				w[j/8] ^= 1 << uint(j%8)
				affinityChecks++
				evals++
				if got != c0^syn[i]^syn[j] {
					premiseFailed++
				}
			}
		}
	}
	c.Set("syndrome_analysis", map[string]interface{}{"payload_sizes": synSizes, "bit_positions": synBits, "pairs_covered": synPairsCovered, "burst_windows": synWindows, "affinity_spot_checks": affinityChecks, "premise_failures": premiseFailed})
	if premiseFailed > 0 {
		c.Cap(fmt.Sprintf("ChecksumIEEE is not affine on %d checked patterns: the syndrome reduction for large payloads does not apply there", premiseFailed))
	}
	maxDirect := 4
	if c.Thorough() {
		maxDirect = 7
	}
	for bi, b := range bases {
		if ok, _, _ := accepted(b.codec, b.wire); !ok {
			c.Violation(map[string]string{"kind": "own-encoding-rejected"}, fmt.Sprintf("the library's own encoding of segment %s is not accepted by its decoder", b.name), b.name)
			continue
		}
		hb := b.hbits / 8
		wmax := maxDirect
		if c.Thorough() && bi >= 4 {
			wmax = 5 // the full weight-7 sweep runs on the first base of each format; others to weight 5
		}
		for w := 1; w <= wmax; w++ {
			// shard by the position of the lowest flipped bit
			vlib.ParFor(b.hbits-w+1, func(lo int) {
				local := int64(0)
				hdr := make([]byte, hb)
				wire := append([]byte{}, b.wire...)
				rest := b.hbits - lo - 1
				try := func(mask uint64) {
					copy(hdr, b.wire[:hb])
					flipMask(hdr, mask)
					copy(wire[:hb], hdr)
					local++
					if ok, seg, why := accepted(b.codec, wire); ok {
						c.Violation(map[string]string{"kind": "header-corruption-accepted", "weight": fmt.Sprint(w), "format": b.name[:4]}, fmt.Sprintf("segment %s with header/CRC-24 bits %#x flipped (weight %d) is accepted %s (segment returned: %v)", b.name, mask, w, why, seg != nil), map[string]interface{}{"base": b.name, "mask": mask})
					}
				}
				if w == 1 {
					try(1 << uint(lo))
				} else if rest >= w-1 {
					combos(rest, w-1, func(m uint64) { try(1<<uint(lo) | m<<uint(lo+1)) })
				}
				atomic.AddInt64(&evals, local)
				atomic.AddInt64(&direct, local)
			})
		}
	}
	// weights up to 7 by linearity of the real ChecksumKoopman: an error (e_h, e_c) is undetected iff
	// L(e_h) == e_c with L(e) = K(e) ^ K(0); so every e_h of weight w <= 7 needs weight(L(e_h)) > 7 - w.
	for _, hl := range []int{3, 5} {
		k0 := crc.ChecksumKoopman(0, hl)
		nb := hl * 8
		// affinity of K on the basis (pairs of single bits) — the premise of the reduction
		for i := 0; i < nb; i++ {
			for j := i + 1; j < nb; j++ {
				a, b := uint64(1)<<uint(i), uint64(1)<<uint(j)
				if crc.ChecksumKoopman(a^b, hl)^crc.ChecksumKoopman(a, hl)^crc.ChecksumKoopman(b, hl)^k0 != 0 {
					c.Violation(map[string]string{"kind": "crc24-not-affine"}, fmt.Sprintf("ChecksumKoopman is not affine on bits %d,%d of a %d-byte header", i, j, hl), nil)
				}
			}
		}
		for w := 1; w <= 7; w++ {
			vlib.ParFor(nb-w+1, func(lo int) {
				local := int64(0)
				rest := nb - lo - 1
				try := func(e uint64) {
					local++
					l := crc.ChecksumKoopman(e, hl) ^ k0
					if l>>24 != 0 || bits.OnesCount32(l) <= 7-w {
						c.Violation(map[string]string{"kind": "crc24-distance", "header_bytes": fmt.Sprint(hl)}, fmt.Sprintf("header error pattern %#x (weight %d) combined with CRC-24 error %#x (weight %d) is undetected: total weight %d <= 7", e, w, l, bits.OnesCount32(l), w+bits.OnesCount32(l)), map[string]interface{}{"e_header": e, "e_crc": l})
					}
					// the reference CRC must agree with the implementation on every pattern
					if crc.ChecksumKoopman(e, hl) != refseg.Crc24(e, hl) {
						c.Violation(map[string]string{"kind": "crc24-differs-from-spec"}, fmt.Sprintf("ChecksumKoopman(%#x,%d) differs from Cassandra's CRC-24", e, hl), e)
					}
				}
				if w == 1 {
					try(1 << uint(lo))
				} else if rest >= w-1 {
					combos(rest, w-1, func(m uint64) { try(1<<uint(lo) | m<<uint(lo+1)) })
				}
				atomic.AddInt64(&evals, local)
			})
		}
	}
	// ------------------------------------------------------------------ payload + CRC-32
	maxSize := 64
	sizes := []int{}
	for n := 0; n <= maxSize; n++ {
		sizes = append(sizes, n)
	}
	big := []int{1024, 65535, 65536, 65537, 131071}
	for _, fm := range []struct {
		name  string
		codec segment.Codec
		hl    int
	}{{"none", plain, 6}, {"lz4", lz, 8}} {
		// incompressible payloads travel as they are (also under LZ4: the fallback form); compressible ones really
		// travel compressed under LZ4 and exercise the other half of the decoder
		classes := []string{"random"}
		if fm.name == "lz4" {
			classes = []string{"random", "p7", "zeros"}
		}
		vlib.ParFor(len(sizes)*len(classes), func(sk int) {
			n := sizes[sk/len(classes)]
			class := classes[sk%len(classes)]
			if class != "random" && n < 16 {
				return // too short to be sent compressed: same as the incompressible case
			}
			p := gen.Payload(n, class)
			wire := enc(c, fm.codec, p, true)
			nbits := (len(wire) - fm.hl) * 8 // transmitted payload + CRC-32
			local := int64(0)
			w := append([]byte{}, wire...)
			try := func(desc string, flips func(set func(bit int))) {
				copy(w, wire)
				flips(func(bit int) { w[fm.hl+bit/8] ^= 1 << uint(bit%8) })
				local++
				if ok, seg, why := accepted(fm.codec, w); ok {
					c.Violation(map[string]string{"kind": "payload-corruption-accepted", "pattern": desc, "format": fm.name}, fmt.Sprintf("segment (%s, payload %d bytes) with %s is accepted %s (segment returned: %v)", fm.name, n, desc, why, seg != nil), map[string]interface{}{"payload_len": n, "pattern": desc})
				}
			}
			for i := 0; i < nbits; i++ {
				i := i
				try("single bit flip", func(set func(int)) { set(i) })
				for j := i + 1; j < nbits; j++ {
					j := j
					try("two bit flips", func(set func(int)) { set(i); set(j) })
				}
				// bursts: every pattern with first and last bit set, length <= 12; solid and edge-only up to 32
				for l := 2; l <= 32 && i+l <= nbits; l++ {
					if l <= 12 {
						for mid := 0; mid < 1<<uint(l-2); mid++ {
							mid, l := mid, l
							try(fmt.Sprintf("burst of %d bits", l), func(set func(int)) {
								set(i)
								set(i + l - 1)
								for k := 0; k < l-2; k++ {
									if mid&(1<<uint(k)) != 0 {
										set(i + 1 + k)
									}
								}
							})
						}
					} else {
						l := l
						try(fmt.Sprintf("solid burst of %d bits", l), func(set func(int)) {
							for k := 0; k < l; k++ {
								set(i + k)
							}
						})
						try(fmt.Sprintf("edge-only burst of %d bits", l), func(set func(int)) { set(i); set(i + l - 1) })
						try(fmt.Sprintf("alternating burst of %d bits", l), func(set func(int)) {
							set(i + l - 1)
							for k := 0; k < l-1; k += 2 {
								set(i + k)
							}
						})
					}
				}
			}
			atomic.AddInt64(&evals, local)
			atomic.AddInt64(&direct, local)
		})
		vlib.ParFor(len(big)*len(classes), func(bk int) {
			n := big[bk/len(classes)]
			p := gen.Payload(n, classes[bk%len(classes)])
			wire := enc(c, fm.codec, p, true)
			nbits := (len(wire) - fm.hl) * 8
			w := append([]byte{}, wire...)
			local := int64(0)
			try := func(desc string, bitsToFlip ...int) {
				copy(w, wire)
				for _, b := range bitsToFlip {
					w[fm.hl+b/8] ^= 1 << uint(b%8)
				}
				local++
				if ok, seg, why := accepted(fm.codec, w); ok {
					c.Violation(map[string]string{"kind": "payload-corruption-accepted", "pattern": desc, "format": fm.name}, fmt.Sprintf("segment (%s, payload %d bytes) with %s at bit %d is accepted %s (segment returned: %v)", fm.name, n, desc, bitsToFlip[0], why, seg != nil), map[string]interface{}{"payload_len": n, "pattern": desc, "bits": bitsToFlip})
				}
			}
			step := 1
			if !c.Thorough() && n > 2048 {
				step = 61 // quick: every 61st bit plus every bit of every 8 KiB block edge; thorough: every bit
			}
			for i := 0; i < nbits; i++ {
				edge := (i/8)%8192 < 4 || (i/8)%8192 >= 8188 || i >= nbits-64
				if i%step != 0 && !edge {
					continue
				}
				try("single bit flip", i)
				if i+31 < nbits {
					var solid []int
					for k := 0; k < 32; k++ {
						solid = append(solid, i+k)
					}
					try("solid burst of 32 bits", solid...)
					try("edge-only burst of 32 bits", i, i+31)
				}
				if i+7 < nbits {
					try("two bit flips", i, i+7)
				}
			}
			atomic.AddInt64(&evals, local)
			atomic.AddInt64(&direct, local)
		})
	}
	c.Sample(map[string]interface{}{"base": bases[0].name, "pattern": "header+CRC-24 bits 0x21 flipped", "expected": "DecodeSegment returns an error and no segment"})
	c.Sample(map[string]interface{}{"payload_len": 5, "pattern": "burst of 12 bits starting at bit 3 of payload+CRC-32"})
	c.Set("evaluations", evals)
	c.Set("distinct_nontrivial", evals)
	c.Set("through_DecodeSegment", direct)
	c.Set("max_header_weight_through_DecodeSegment", maxDirect)
	c.Set("rule", "every evaluation is a distinct corruption pattern of a valid segment (all are non-trivial: at least one bit differs). Header: all patterns of weight<=4 (quick) / <=7 (thorough) over the 48/64 header+CRC-24 bits through DecodeSegment on 16 base segments, and all weight<=7 patterns through ChecksumKoopman using its affinity (checked). Payload: for every size 0..64 all single flips, all pairs, all bursts of length<=12 and solid/edge/alternating bursts up to 32 bits at every offset of payload+CRC-32; for sizes 1 KiB..131071 single flips and 32-bit bursts (quick: every 61st bit plus block edges; thorough: every bit).")
	c.Assumptions = []string{"linearity argument: an error pattern is undetected independently of the header value, so one base value covers all; additional bases guard against non-linear comparison logic"}
	c.Finish()
}
