// C01 — frame round-trip fidelity for every message, version and compression.
// E1: deviation-bounded exhaustive enumeration of version-valid frames; encode then decode with
// the same compression setting; compare up to nil/empty and IPv4 width.
package main

import (
	"bytes"
	"encoding/hex"
	"fmt"
	"hash/fnv"
	"io"
	"sync"
	"sync/atomic"
	"testing/iotest"

	"github.com/datastax/go-cassandra-native-protocol/frame"
	"github.com/datastax/go-cassandra-native-protocol/message"
	"github.com/datastax/go-cassandra-native-protocol/primitive"

	"verif/fcheck"
	"verif/gen"
	"verif/vlib"
)

func main() {
	c := vlib.New("C01", "model_checking")
	o := fcheck.Opts(c)
	o.Invalid = true
	var evals, encoded, extra, histories int64
	var mu sync.Mutex
	distinct := map[uint64]struct{}{}
	kinds := map[string]int{}
	// histories of two encodes on one codec: whatever the first frame was - valid, or refused by the encoder
	// after part of it had been written - a fixed probe frame encoded next must come out as it does alone
	probeBytes := map[string][]byte{}
	var pmu sync.Mutex
	probe := func(cs gen.Case, comp primitive.Compression, codec frame.Codec) {
		v := cs.Frame.Header.Version
		pf := frame.NewFrame(v, 7, &message.Query{Query: "SELECT probe FROM after_a_previous_encode", Options: &message.QueryOptions{Consistency: primitive.ConsistencyLevelOne}})
		pf.Header.Flags |= primitive.HeaderFlagCompressed
		key := fmt.Sprintf("%v|%s", v, comp)
		pmu.Lock()
		want, ok := probeBytes[key]
		pmu.Unlock()
		buf := &bytes.Buffer{}
		if err := codec.EncodeFrame(pf, buf); err != nil {
			c.Violation(map[string]string{"kind": "history-encode-error", "compression": string(comp)}, fmt.Sprintf("after encoding %s (%s) the next frame is refused: %v", cs.Name, comp, err), cs.Name)
			return
		}
		if !ok {
			fresh := &bytes.Buffer{}
			_ = fcheck.Codec(comp).EncodeFrame(gen.Clone(pf).(*frame.Frame), fresh)
			pmu.Lock()
			if probeBytes[key] == nil {
				probeBytes[key] = fresh.Bytes()
			}
			want = probeBytes[key]
			pmu.Unlock()
		}
		if !bytes.Equal(buf.Bytes(), want) {
			c.Violation(map[string]string{"kind": "history-leftover", "compression": string(comp), "first-invalid": fmt.Sprint(cs.Invalid)}, fmt.Sprintf("a frame encoded right after %s (%s, refused=%v) differs from the same frame encoded alone (%d vs %d bytes): state left behind by the previous encode", cs.Name, comp, cs.Invalid, buf.Len(), len(want)), cs.Name)
		}
	}
	one := func(cs gen.Case) {
		v := cs.Frame.Header.Version
		if cs.Invalid {
			// only the error-path history: encode (normally refused), then the probe
			for _, comp := range fcheck.Compressions(v) {
				if comp == primitive.CompressionNone {
					continue
				}
				codec := fcheck.Codec(comp)
				f := gen.Clone(cs.Frame).(*frame.Frame)
				f.Header.Flags |= primitive.HeaderFlagCompressed
				atomic.AddInt64(&histories, 1)
				if pv, _ := vlib.Catch(func() { _ = codec.EncodeFrame(f, &bytes.Buffer{}) }); pv != nil {
					continue // a panic on an invalid frame is not this property's business
				}
				probe(cs, comp, codec)
			}
			return
		}
		for _, comp := range fcheck.Compressions(v) {
			codec := fcheck.Codec(comp)
			flags := []bool{false}
			if comp != primitive.CompressionNone && fcheck.Compressible(cs.Frame) {
				flags = []bool{true, false} // per-frame compression is optional
			}
			for _, cf := range flags {
				f := gen.Clone(cs.Frame).(*frame.Frame)
				if cf {
					f.Header.Flags |= primitive.HeaderFlagCompressed
				}
				orig := gen.Clone(f).(*frame.Frame)
				atomic.AddInt64(&evals, 1)
				keys := map[string]string{}
				buf := &bytes.Buffer{}
				var err error
				if pv, site := vlib.Catch(func() { err = codec.EncodeFrame(f, buf) }); pv != nil {
					keys["kind"], keys["site"] = "encode-panic", site
					c.Violation(keys, fmt.Sprintf("%s: EncodeFrame panics: %v", cs.Name, pv), replay(cs, comp, cf, nil))
					continue
				}
				if err != nil {
					keys["kind"], keys["error"], keys["msg"] = "encode-error", fcheck.ErrClass(err), fcheck.Kind(cs.Name)
					c.Violation(keys, fmt.Sprintf("%s (%s, compressed=%v): version-valid frame refused by EncodeFrame: %v\n%s", cs.Name, comp, cf, err, gen.Describe(orig.Body.Message)), replay(cs, comp, cf, nil))
					continue
				}
				atomic.AddInt64(&encoded, 1)
				h := fnv.New64a()
				h.Write(buf.Bytes())
				mu.Lock()
				distinct[h.Sum64()] = struct{}{}
				kinds[fcheck.BaseName(cs.Name)]++
				mu.Unlock()
				wire := append([]byte{}, buf.Bytes()...)
				lz4cause := func() string {
					if !cf || comp != primitive.CompressionLz4 {
						return ""
					}
					hl := 9
					if v == gen.V2 {
						hl = 8
					}
					plain := gen.Clone(orig).(*frame.Frame)
					plain.Header.Flags &^= primitive.HeaderFlagCompressed
					pb := &bytes.Buffer{}
					if err := codec.EncodeFrame(plain, pb); err != nil || len(wire) < hl+4 {
						return ""
					}
					return fcheck.LZ4Cause(pb.Bytes()[hl:], wire[hl+4:])
				}
				var got *frame.Frame
				if pv, site := vlib.Catch(func() { got, err = codec.DecodeFrame(bytes.NewReader(wire)) }); pv != nil {
					keys["kind"], keys["site"] = "decode-panic", site
					c.Violation(keys, fmt.Sprintf("%s: DecodeFrame panics on the library's own encoding: %v", cs.Name, pv), replay(cs, comp, cf, wire))
					continue
				}
				if err != nil {
					keys["kind"], keys["error"] = "decode-error", fcheck.ErrClass(err)
					if cause := lz4cause(); cause != "" {
						keys = map[string]string{"kind": "lz4-corrupt-block", "cause": cause}
					}
					c.Violation(keys, fmt.Sprintf("%s (%s, compressed=%v): encoded frame does not decode: %v\n%s", cs.Name, comp, cf, err, gen.Describe(orig.Body.Message)), replay(cs, comp, cf, wire))
					continue
				}
				if cf {
					probe(cs, comp, codec)
				}
				if d := gen.Equal(orig, got, fcheck.Ignore); d != "" {
					keys["kind"], keys["diff"], keys["msg"] = "mismatch", fcheck.DiffClass(d), fcheck.Kind(cs.Name)
					if cause := lz4cause(); cause != "" {
						keys = map[string]string{"kind": "lz4-corrupt-block", "cause": cause}
					}
					c.Violation(keys, fmt.Sprintf("%s (%s, compressed=%v): decoded frame differs at %s\n sent: %s\n got:  %s", cs.Name, comp, cf, d, gen.Describe(orig.Body.Message), gen.Describe(got.Body.Message)), replay(cs, comp, cf, wire))
					continue
				}
				// the same bytes as they arrive in practice: twice in a row on one stream held by a *bytes.Buffer (the
				// compressors special-case that source type), and from a connection that returns short reads
				if cf || atomic.LoadInt64(&evals)%4 == 0 {
					stream := bytes.NewBuffer(append(append([]byte{}, wire...), wire...))
					for k, src := range []io.Reader{stream, stream, iotest.HalfReader(bytes.NewReader(wire))} {
						how := [...]string{"first of two frames on a bytes.Buffer", "second of two frames on a bytes.Buffer", "a reader returning short reads"}[k]
						var g2 *frame.Frame
						var e2 error
						if pv, site := vlib.Catch(func() { g2, e2 = codec.DecodeFrame(src) }); pv != nil {
							keys["kind"], keys["site"] = "decode-panic", site
							c.Violation(keys, fmt.Sprintf("%s: DecodeFrame panics (%s): %v", cs.Name, how, pv), replay(cs, comp, cf, wire))
							break
						}
						if e2 != nil {
							keys["kind"], keys["error"], keys["source"] = "decode-error", fcheck.ErrClass(e2), how
							c.Violation(keys, fmt.Sprintf("%s (%s, compressed=%v): decodes alone from a bytes.Reader, but not as %s: %v", cs.Name, comp, cf, how, e2), replay(cs, comp, cf, wire))
							break
						}
						if d := gen.Equal(orig, g2, fcheck.Ignore); d != "" {
							keys["kind"], keys["diff"], keys["msg"], keys["source"] = "mismatch", fcheck.DiffClass(d), fcheck.Kind(cs.Name), how
							c.Violation(keys, fmt.Sprintf("%s (%s, compressed=%v): decoded as %s the frame differs at %s", cs.Name, comp, cf, how, d), replay(cs, comp, cf, wire))
							break
						}
					}
				}
			}
		}
		if n := atomic.LoadInt64(&evals); n%50000 == 0 {
			c.Sample(map[string]interface{}{"case": cs.Name, "message": gen.Describe(cs.Frame.Body.Message)})
		}
	}
	n := fcheck.ForEach(c, o, one)
	// bodies of every content class (ratios below 1 to ~250:1, and blocks repeated at the edge of
	// LZ4's 64 KiB window), larger than one window, in a request and in a response of every version
	type big struct {
		v     gen.V
		class string
		size  int
	}
	var bigs []big
	for _, v := range gen.Versions {
		for _, class := range gen.PayloadClasses {
			for _, size := range []int{70000, 140000} {
				bigs = append(bigs, big{v, class, size})
			}
		}
	}
	vlib.ParFor(len(bigs), func(i int) {
		b := bigs[i]
		p := gen.Payload(b.size, b.class)
		one(gen.Case{Name: fmt.Sprintf("%v/AUTH_RESPONSE/token=%s[%d]", b.v, b.class, b.size), Frame: frame.NewFrame(b.v, 1, &message.AuthResponse{Token: p})})
		one(gen.Case{Name: fmt.Sprintf("%v/RESULT.Rows/cell=%s[%d]", b.v, b.class, b.size), Frame: frame.NewFrame(b.v, 1, &message.RowsResult{Metadata: &message.RowsMetadata{ColumnCount: 1}, Data: message.RowSet{{p}}})})
		atomic.AddInt64(&extra, 2)
	})
	n += extra
	// fault enumeration on the writer: every base message, EncodeFrame into a writer that fails after k bytes for
	// every k, then the probe frame on the same codec (nothing of the aborted frame may be left behind)
	type wf struct {
		v    gen.V
		name string
		msg  message.Message
	}
	var wfs []wf
	for _, v := range gen.Versions {
		for _, b := range gen.BasesPublic(v) {
			if gen.ValidMsgPublic(b.Msg, v) {
				wfs = append(wfs, wf{v, b.Name, b.Msg})
			}
		}
	}
	vlib.ParFor(len(wfs), func(i int) {
		w := wfs[i]
		for _, comp := range fcheck.Compressions(w.v) {
			codec := fcheck.Codec(comp)
			f := frame.NewFrame(w.v, 1, gen.Clone(w.msg).(message.Message))
			if comp != primitive.CompressionNone && fcheck.Compressible(f) {
				f.Header.Flags |= primitive.HeaderFlagCompressed
			}
			full := &bytes.Buffer{}
			if err := codec.EncodeFrame(gen.Clone(f).(*frame.Frame), full); err != nil {
				continue
			}
			for k := 0; k < full.Len(); k++ {
				atomic.AddInt64(&histories, 1)
				_ = codec.EncodeFrame(gen.Clone(f).(*frame.Frame), &failingWriter{left: k}) // whether it reports the failure is not this property's business
				if comp != primitive.CompressionNone {
					probe(gen.Case{Name: fmt.Sprintf("%v/%s/write-failure-at-%d", w.v, w.name, k), Frame: f, Invalid: true}, comp, codec)
				}
				// and the read side: a decode that runs out of input after k bytes, then the decode of an intact frame
				_, _ = codec.DecodeFrame(bytes.NewReader(full.Bytes()[:k]))
				if got, err := codec.DecodeFrame(bytes.NewReader(full.Bytes())); err != nil {
					c.Violation(map[string]string{"kind": "history-decode-error", "compression": string(comp)}, fmt.Sprintf("%v/%s (%s): after a decode that ran out of input at byte %d, the intact frame no longer decodes: %v", w.v, w.name, comp, k, err), w.name)
				} else if d := gen.Equal(f, got, fcheck.Ignore); d != "" {
					c.Violation(map[string]string{"kind": "history-leftover", "compression": string(comp), "side": "decode"}, fmt.Sprintf("%v/%s (%s): after a decode that ran out of input at byte %d, the intact frame decodes differently at %s", w.v, w.name, comp, k, d), w.name)
				}
			}
		}
	})
	c.Sample(map[string]interface{}{"case": "first", "note": "cases are named version/KIND.variant/fieldpath=alternative"})
	c.Set("states", int64(len(distinct)))
	c.Set("transitions", evals)
	c.Set("traces_validated_against_impl", encoded)
	c.Set("evaluations", evals)
	c.Set("frames_generated", n)
	c.Set("error_path_histories", histories)
	c.Set("distinct_nontrivial", int64(len(distinct)))
	c.Set("message_kinds", len(kinds))
	c.Set("bound", map[string]interface{}{"field_deviations": o.D, "type_depth": o.TypeDepth, "large_strings": o.Thorough})
	c.Set("rule", "states = distinct encoded byte strings; a case is a version-valid frame (base instance of every message kind/variant x header variants x all presence vectors of QUERY/EXECUTE options x every alternative of every field with at most d fields away from the base) x compression {none, LZ4, Snappy} x compressed flag")
	c.Assumptions = []string{"version validity and canonical forms are decided by gen.Valid, written from the specs", "field values are drawn from small ordered domains (DESIGN 2.5), not from all values"}
	c.Finish()
}

func replay(cs gen.Case, comp primitive.Compression, cf bool, wire []byte) interface{} {
	return map[string]interface{}{"case": cs.Name, "compression": comp, "compressed_flag": cf, "frame": gen.Describe(cs.Frame), "wire_hex": hex.EncodeToString(trim(wire))}
}

func trim(b []byte) []byte {
	if len(b) > 2048 {
		return b[:2048]
	}
	return b
}

// failingWriter accepts `left` bytes, then fails.
type failingWriter struct{ left int }

func (w *failingWriter) Write(p []byte) (int, error) {
	if len(p) <= w.left {
		w.left -= len(p)
		return len(p), nil
	}
	n := w.left
	w.left = 0
	return n, fmt.Errorf("injected write failure")
}
