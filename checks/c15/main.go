// C15 — client and server exchange frames intact under every version and compression.
package main

import (
	"fmt"

	"github.com/datastax/go-cassandra-native-protocol/primitive"

	"verif/engine/explore"
	"verif/fcheck"
	"verif/gen"
	"verif/hconn"
	"verif/hmodel"
	"verif/vlib"
)

type hdesc struct {
	name  string
	bound int
	tier  string // "quick" or "thorough"
}

func main() {
	var hs []hdesc
	for _, v := range gen.Versions {
		for _, comp := range fcheck.Compressions(v) {
			for _, auth := range []bool{false, true} {
				cfg := hconn.Cfg{Version: v, Compression: comp, Auth: auth}
				name := fmt.Sprintf("exchange/%v/%s/auth=%v", v, comp, auth)
				explore.Register(hconn.ExchangeHarness(name, cfg, hconn.Pairs(v, false), 0))
				hs = append(hs, hdesc{name, 0, "quick"})
				explore.Register(hconn.ExchangeHarness(name+"/all", cfg, hconn.Pairs(v, true), 0))
				hs = append(hs, hdesc{name + "/all", 0, "thorough"})
			}
		}
		// one schedule-exploring run per version: a single pair, delay bound 1 (quick) / 2 (thorough)
		cfg := hconn.Cfg{Version: v, Compression: primitive.CompressionLz4, Auth: v == gen.V5}
		name := fmt.Sprintf("exchange-sched/%v", v)
		explore.Register(hconn.ExchangeHarness(name, cfg, hconn.Pairs(v, false)[:1], 2))
		hs = append(hs, hdesc{name, 2, "quick"})
	}
	for _, h := range hconn.RawPeerHarnesses() {
		explore.Register(h)
		hs = append(hs, hdesc{h.Name, h.Bound, "quick"})
	}
	if hmodel.Dispatch() {
		return
	}
	c := vlib.New("C15", "model_checking")
	t := &hmodel.Totals{}
	for _, h := range hs {
		if h.tier == "thorough" && !c.Thorough() {
			continue
		}
		b := h.bound
		if c.Thorough() && b > 0 {
			b++
		}
		hmodel.RunHarness(c, "C15", t, h.name, b, "panic", "deadlock", "livelock", "leak")
	}
	hmodel.Finish(c, t, "a schedule is a vector of scheduler choices (delay-bounded); each harness runs the real client and server connections over the in-memory network: handshake, then request/response pairs from the frame grammar compared on both sides, wire bytes parsed independently (v5: unframed handshake, then valid segments, no per-envelope compression); raw peers speak reference-encoded segments to each side")
}
