// C12 — CQL values are serialized exactly as the specification's formats prescribe.
package main

import (
	"bytes"
	"fmt"
	"math/big"
	"reflect"
	"sync/atomic"

	"github.com/datastax/go-cassandra-native-protocol/datacodec"
	"github.com/datastax/go-cassandra-native-protocol/datatype"

	"verif/cql"
	"verif/gen"
	"verif/vlib"
)

var evals, validated int64

// permutations of map entries (entry order on the wire is not prescribed)
func mapOrders(a cql.AV) []cql.AV {
	if a.Kind != 'M' || len(a.Elems) < 2 || len(a.Elems) > 3 {
		return []cql.AV{a}
	}
	var out []cql.AV
	n := len(a.Elems)
	idx := make([]int, n)
	for i := range idx {
		idx[i] = i
	}
	var rec func(k int)
	rec = func(k int) {
		if k == n {
			b := cql.AV{Kind: 'M'}
			for _, i := range idx {
				b.Keys = append(b.Keys, a.Keys[i])
				b.Elems = append(b.Elems, a.Elems[i])
			}
			out = append(out, b)
			return
		}
		for i := k; i < n; i++ {
			idx[k], idx[i] = idx[i], idx[k]
			rec(k + 1)
			idx[k], idx[i] = idx[i], idx[k]
		}
	}
	rec(0)
	return out
}

func hasNestedMap(a cql.AV) bool {
	for _, e := range append(append([]cql.AV{}, a.Elems...), a.Keys...) {
		if (e.Kind == 'M' && len(e.Elems) > 1) || hasNestedMap(e) {
			return true
		}
	}
	return false
}

func main() {
	c := vlib.New("C12", "model_checking")
	// the specification's own varint table (native_protocol_v5.spec section 6.17)
	table := []struct {
		v   int64
		hex string
	}{{0, "00"}, {1, "01"}, {127, "7f"}, {128, "0080"}, {129, "0081"}, {-1, "ff"}, {-128, "80"}, {-129, "ff7f"}}
	for _, row := range table {
		evals++
		got, err := datacodec.Varint.Encode(big.NewInt(row.v), gen.V5)
		if err != nil || fmt.Sprintf("%x", got) != row.hex {
			c.Violation(map[string]string{"kind": "spec-varint-table", "direction": "encode"}, fmt.Sprintf("varint %d: spec says 0x%s, Encode gives %x (err %v)", row.v, row.hex, got, err), row.v)
		}
		if fmt.Sprintf("%x", cql.Varint(big.NewInt(row.v))) != row.hex {
			c.Broken("reference varint encoder disagrees with the specification's table for %d", row.v)
		}
		var back *big.Int = new(big.Int)
		var b []byte
		fmt.Sscanf(row.hex, "%x", &b)
		if wasNull, err := datacodec.Varint.Decode(b, back, gen.V5); err != nil || wasNull || back.Int64() != row.v {
			c.Violation(map[string]string{"kind": "spec-varint-table", "direction": "decode"}, fmt.Sprintf("varint bytes 0x%s: spec says %d, Decode gives %v (null=%v err=%v)", row.hex, row.v, back, wasNull, err), row.v)
		}
	}
	var states int64
	check := func(dt datatype.DataType, v gen.V, repName string, src reflect.Value, t reflect.Type, a cql.AV) {
		codec, err := datacodec.NewCodec(dt)
		if err != nil {
			return
		}
		atomic.AddInt64(&evals, 1)
		keys := func(kind string) map[string]string {
			return map[string]string{"kind": kind, "type": dt.Code().String(), "rep": repName}
		}
		desc := fmt.Sprintf("%v (%v) value %s as %s", dt, v, a, t)
		want, expressible := cql.Serialize(dt, a, v)
		enc, err, pv, site := cql.Encode(codec, src.Interface(), v)
		if pv != nil {
			k := keys("encode-panic")
			k["site"] = site
			c.Violation(k, fmt.Sprintf("%s: Encode panics: %v", desc, pv), desc)
			return
		}
		if !expressible {
			if err == nil {
				c.Violation(keys("inexpressible-accepted"), fmt.Sprintf("%s: the format of this version cannot express the value, yet Encode returned %x", desc, clip(enc)), desc)
			}
			return
		}
		if err != nil {
			c.Violation(keys("expressible-refused"), fmt.Sprintf("%s: the specification prescribes %x, Encode refuses the value: %v", desc, clip(want), err), desc)
			return
		}
		ok := false
		if hasNestedMap(a) {
			ok = len(enc) == len(want) // nested multi-entry maps: only the length is compared
		} else {
			for _, alt := range mapOrders(a) {
				w, _ := cql.Serialize(dt, alt, v)
				if bytes.Equal(w, enc) {
					ok = true
					break
				}
			}
		}
		if !ok {
			c.Violation(keys("wire-format"), fmt.Sprintf("%s: Encode gives %x, the specification prescribes %x", desc, clip(enc), clip(want)), desc)
		} else {
			atomic.AddInt64(&validated, 1)
		}
		// specification-formatted bytes decode to the value they denote
		dest := reflect.New(t)
		var target interface{} = dest.Interface()
		if t.Kind() == reflect.Ptr {
			dest.Elem().Set(reflect.New(t.Elem()))
			target = dest.Elem().Interface()
		}
		wasNull, err, pv, site := cql.Decode(codec, want, target, v)
		if pv != nil {
			k := keys("decode-panic")
			k["site"] = site
			c.Violation(k, fmt.Sprintf("%s: Decode of spec bytes %x panics: %v", desc, clip(want), pv), desc)
			return
		}
		if err != nil {
			c.Violation(keys("spec-bytes-rejected"), fmt.Sprintf("%s: specification-formatted bytes %x do not decode: %v", desc, clip(want), err), desc)
			return
		}
		got := cql.Abstract(dt, dest.Elem())
		if wasNull != a.IsNull() || got.Key() != a.Key() {
			c.Violation(keys("spec-bytes-misread"), fmt.Sprintf("%s: specification-formatted bytes %x decode to %s (null=%v)", desc, clip(want), got, wasNull), desc)
			return
		}
		atomic.AddInt64(&validated, 1)
		// ... also into a destination that still holds the previous row (rows are decoded one after the other into
		// the same variable): first the fullest value of the type, then these bytes
		if k := t.Kind(); (k == reflect.Slice || k == reflect.Array || k == reflect.Struct) && cql.IsComposite(dt) && !hasMapType(t, 0) {
			vals := cql.Values(dt, 3, false)
			if len(vals) > 0 {
				if prev, ok := cql.Serialize(dt, vals[len(vals)-1], v); ok {
					d2 := reflect.New(t)
					if _, err, pv, _ := cql.Decode(codec, prev, d2.Interface(), v); err == nil && pv == nil {
						wn, err, pv, _ := cql.Decode(codec, want, d2.Interface(), v)
						if got2 := cql.Abstract(dt, d2.Elem()); pv != nil || err != nil || wn != a.IsNull() || got2.Key() != a.Key() {
							c.Violation(keys("spec-bytes-misread-into-reused-destination"), fmt.Sprintf("%s: specification-formatted bytes %x, decoded into a destination that held %s, give %s (null=%v err=%v panic=%v)", desc, clip(want), vals[len(vals)-1], got2, wn, err, pv), desc)
							return
						}
						atomic.AddInt64(&validated, 1)
					}
				}
			}
		}
	}
	for _, dt := range cql.ScalarTypes() {
		reps := cql.Reps(dt)
		dom := cql.Domain(dt, false)
		states += int64(len(dom))
		for _, v := range gen.Versions {
			for _, r := range reps {
				for _, a := range dom {
					if a.Kind == 'I' && !cql.CqlRange(dt, a.I) {
						continue
					}
					if src, ok := r.Make(a); ok {
						check(dt, v, r.Name, src, r.T, a)
					}
				}
			}
		}
	}
	depth := 2
	if c.Thorough() {
		depth = 3
	}
	var types []datatype.DataType
	for _, t := range gen.DataTypes(depth) {
		if cql.IsComposite(t) {
			types = append(types, t)
		}
	}
	vlib.ParFor(len(types), func(ti int) {
		dt := types[ti]
		for _, v := range gen.Versions {
			if !gen.TypeValid(dt, v) {
				continue
			}
			for _, m := range cql.Modes() {
				gt, ok := cql.GoType(dt, m)
				if !ok {
					continue
				}
				for _, a := range cql.Values(dt, 3, m.Nullable()) {
					if src, ok := cql.Build(dt, a, gt); ok {
						atomic.AddInt64(&states, 1)
						check(dt, v, m.String(), src, gt, a)
					}
				}
			}
		}
	})
	// element lengths: protocol v2 writes them as UNSIGNED shorts - elements of 32767, 32768 and 65535 bytes are
	// expressible, 65536 bytes are not; from v3 the lengths are [int]s
	for _, v := range []gen.V{gen.V2, gen.V3} {
		for _, n := range []int{32767, 32768, 65535, 65536} {
			long := bytes.Repeat([]byte{'a'}, n)
			for _, lc := range []struct {
				dt datatype.DataType
				a  cql.AV
			}{
				{datatype.NewList(datatype.Blob), cql.AV{Kind: 'L', Elems: []cql.AV{cql.Bytes([]byte{1}), cql.Bytes(long)}}},
				{datatype.NewSet(datatype.Varchar), cql.AV{Kind: 'L', Elems: []cql.AV{cql.Text(string(long))}}},
				{datatype.NewMap(datatype.Varchar, datatype.Blob), cql.AV{Kind: 'M', Keys: []cql.AV{cql.Text(string(long))}, Elems: []cql.AV{cql.Bytes([]byte{2})}}},
				{datatype.NewMap(datatype.Int, datatype.Varchar), cql.AV{Kind: 'M', Keys: []cql.AV{cql.BigInt(big.NewInt(7))}, Elems: []cql.AV{cql.Text(string(long))}}},
			} {
				if gt, ok := cql.GoType(lc.dt, cql.Plain); ok {
					if src, ok := cql.Build(lc.dt, lc.a, gt); ok {
						states++
						check(lc.dt, v, "plain/long-element", src, gt, lc.a)
					}
				}
			}
		}
	}
	c.Sample(map[string]interface{}{"type": "list<int>", "version": "v2", "value": "L[I1,I0]", "spec_bytes": "0002 0004 00000001 0004 00000000"})
	c.Set("states", states)
	c.Set("transitions", evals)
	c.Set("traces_validated_against_impl", validated)
	c.Set("composite_types", len(types))
	c.Set("bound", map[string]interface{}{"type_depth": depth})
	c.Set("rule", "same enumeration as C11; each case compares Encode with the reference serializer (maps: any entry order) and decodes the reference bytes; values a version cannot express (NULL inside v2 collections) must be refused; the spec's varint table verbatim")
	c.Assumptions = []string{"the reference serializer (cql/av.go) was written from section 6 of native_protocol_v5.spec and the v2 collection format"}
	c.Finish()
}

func clip(b []byte) []byte {
	if len(b) > 40 {
		return b[:40]
	}
	return b
}

// hasMapType reports whether a Go type contains a map or an interface (maps are filled in place: entries merge).
func hasMapType(t reflect.Type, d int) bool {
	if d > 6 {
		return false
	}
	switch t.Kind() {
	case reflect.Map, reflect.Interface:
		return true
	case reflect.Ptr, reflect.Slice, reflect.Array:
		return hasMapType(t.Elem(), d+1)
	case reflect.Struct:
		for i := 0; i < t.NumField(); i++ {
			if hasMapType(t.Field(i).Type, d+1) {
				return true
			}
		}
	}
	return false
}
