// C16 — connections terminate cleanly on close, peer loss and timeout.
// E2 as fault enumeration: a fault (client close, server-connection close, network reset, context
// cancel) injected at EVERY scheduling point of scripted sessions, each position explored under a
// delay bound; timeouts on the virtual clock.
package main

import (
	"fmt"
	"time"

	"github.com/datastax/go-cassandra-native-protocol/primitive"

	"verif/engine/explore"
	"verif/gen"
	"verif/hconn"
	"verif/hmodel"
	"verif/vlib"
)

type fh struct {
	name   string
	qb, tb int
	quick  bool
}

func main() {
	hmodel.RegisterHandlerLevel()
	var fhs []fh
	for _, fault := range []string{"client-close", "server-close", "reset", "cancel", "raw-close-server", "raw-close-client"} {
		for _, sc := range []struct {
			tag   string
			v     gen.V
			auth  bool
			nreq  int
			pages int
			quick bool
		}{
			{"v4-2req", gen.V4, false, 2, 0, true},
			{"v5auth-1req", gen.V5, true, 1, 0, true},
			{"dse2-pages", gen.DSE2, false, 1, 2, true},
			{"v4-0req", gen.V4, true, 0, 0, false},
			{"v5lz4-2req", gen.V5, false, 2, 0, false},
		} {
			cfg := hconn.Cfg{Version: sc.v, Auth: sc.auth}
			if sc.tag == "v5lz4-2req" {
				cfg.Compression = primitive.CompressionLz4
			}
			name := fmt.Sprintf("fault/%s/%s", fault, sc.tag)
			explore.Register(hconn.FaultHarness(name, cfg, fault, sc.nreq, sc.pages, 0))
			qb, tb := 0, 1
			if sc.tag == "v4-2req" {
				qb, tb = 1, 2 // one scenario per fault kind gets a schedule-exploring quick run; the others the default schedule per fault position
			}
			fhs = append(fhs, fh{name, qb, tb, sc.quick})
		}
	}
	T := 10 * time.Second
	type th struct{ name string }
	var ths []string
	for _, d := range []time.Duration{T - 1, T, T + 1, T / 2, 2 * T} {
		name := fmt.Sprintf("timeout/delay=%v", d)
		explore.Register(hconn.TimeoutHarness(name, T, d, 0, 0, 0))
		ths = append(ths, name)
	}
	for _, pg := range []int{1, 3} {
		name := fmt.Sprintf("timeout/pages=%d", pg)
		explore.Register(hconn.TimeoutHarness(name, T, 0, T-1, pg, 0))
		ths = append(ths, name)
	}
	srvs := hconn.RegisterServer()
	if hmodel.Dispatch() {
		return
	}
	c := vlib.New("C16", "fault_enumeration")
	t := &hmodel.Totals{}
	generic := []string{"panic", "deadlock", "livelock", "leak"}
	positions := 0
	// cheapest and most diverse first, so that a deadline cuts depth rather than breadth:
	// phase 1 = timeouts, handler-level close races, and every fault position of every scenario on the
	// default schedule (delay bound 0); phase 2 = the schedule-exploring runs (bound > 0).
	for _, name := range ths {
		b := 0
		if c.Thorough() {
			b = 1
		}
		hmodel.RunHarness(c, "C16", t, name, b, generic...)
	}
	for _, s := range hmodel.CloseScripts() {
		b := s.QB
		if c.Thorough() {
			b = s.TB
		}
		hmodel.RunHarness(c, "C16", t, s.Name, b, generic...)
	}
	lengths := map[string]int{}
	// the server itself: listener, accept loop, connection handler (same two phases)
	for _, d := range srvs {
		fhs = append(fhs, fh{d.Name, d.QB, d.TB, d.Quick})
	}
	for phase := 1; phase <= 2; phase++ {
		for _, h := range fhs {
			if !h.quick && !c.Thorough() {
				continue
			}
			b := h.qb
			if c.Thorough() {
				b = h.tb
			}
			hh := explore.Lookup(h.name)
			if phase == 1 {
				// learn the length of the fault-free script, then inject the fault at every scheduling point
				hh.Arg = -1
				hmodel.RunHarness(c, "C16", t, h.name, 0, generic...)
				lengths[h.name] = int(t.LastMaxSteps)
				b = 0
			} else if b == 0 {
				continue
			}
			n := lengths[h.name]
			for at := 0; at <= n; at++ {
				if c.Expired("fault positions of " + h.name) {
					break
				}
				hh.Arg = at
				hmodel.RunHarnessQuiet(c, "C16", t, h.name, b, generic...)
				positions++
			}
			fmt.Printf("fault harness %-36s positions 0..%d at delay bound %d done\n", h.name, n, b)
		}
	}
	c.Set("fault_positions", positions)
	c.Set("evaluations", t.Execs)
	c.Set("distinct_nontrivial", t.Execs)
	hmodel.Finish(c, t, "a case is one complete execution of a scripted session with a fault (client Close, server-connection Close, network reset, context cancel) forced at scheduling point k, for every k of the fault-free script, each explored under the delay bound; timeouts: response delay in {T/2, T-1, T, T+1, 2T} and pages every T-1 then silence, on the virtual clock; every execution is distinct (distinct fault position or schedule)")
}
