// C03 — declared lengths equal emitted bytes; back-to-back frames decode in sequence.
package main

import (
	"bytes"
	"encoding/binary"
	"encoding/hex"
	"fmt"
	"io"
	"strings"
	"sync"
	"sync/atomic"
	"testing/iotest"

	"github.com/datastax/go-cassandra-native-protocol/datatype"
	"github.com/datastax/go-cassandra-native-protocol/frame"
	"github.com/datastax/go-cassandra-native-protocol/message"
	"github.com/datastax/go-cassandra-native-protocol/primitive"

	"verif/fcheck"
	"verif/gen"
	"verif/vlib"
)

var sentinel = []byte{0xde, 0xad, 0xbe, 0xef, 0x55}

func headerLen(v gen.V) int {
	if v == gen.V2 {
		return 8
	}
	return 9
}

func codecFor(op primitive.OpCode) message.Codec {
	for _, c := range message.DefaultMessageCodecs {
		if c.GetOpCode() == op {
			return c
		}
	}
	return nil
}

type seqItem struct {
	name string
	wire []byte
	comp primitive.Compression
	f    *frame.Frame
}

// the stream a decoder reads from is part of the environment: a bytes.Reader, a bytes.Buffer (which
// compressors special-case) and a reader with no other methods
type plainReader struct{ r io.Reader }

func (p plainReader) Read(b []byte) (int, error) { return p.r.Read(b) }

var sourceKinds = []struct {
	name string
	mk   func([]byte) io.Reader
}{
	{"reader", func(b []byte) io.Reader { return bytes.NewReader(b) }},
	{"buffer", func(b []byte) io.Reader { return bytes.NewBuffer(b) }},
	{"plain", func(b []byte) io.Reader { return plainReader{bytes.NewReader(b)} }},
	// a connection that delivers the frame in pieces: one Read returns less than was asked for
	{"half", func(b []byte) io.Reader { return iotest.HalfReader(bytes.NewReader(b)) }},
	{"one-byte", func(b []byte) io.Reader { return iotest.OneByteReader(bytes.NewReader(b)) }},
}

func main() {
	c := vlib.New("C03", "model_checking")
	o := fcheck.Opts(c)
	var evals, validated int64
	var mu sync.Mutex
	alphabet := map[string]seqItem{} // one boundary-distinct frame per (version, kind, compression class)
	var perCase func(cs gen.Case)
	perCase = func(cs gen.Case) {
		v := cs.Frame.Header.Version
		// tolerated non-canonical forms: the API documents that named values are silently ignored when positional
		// values are present; lengths and consumption must agree for such a frame too (its content is not compared)
		if !strings.HasSuffix(cs.Name, "/+named") {
			var qo *message.QueryOptions
			switch m := cs.Frame.Body.Message.(type) {
			case *message.Query:
				qo = m.Options
			case *message.Execute:
				qo = m.Options
			}
			if qo != nil && len(qo.PositionalValues) > 0 && len(qo.NamedValues) == 0 && v != gen.V2 {
				f2 := gen.Clone(cs.Frame).(*frame.Frame)
				switch m := f2.Body.Message.(type) {
				case *message.Query:
					m.Options.NamedValues = map[string]*primitive.Value{"a_named_value": primitive.NewValue([]byte{1, 2, 3, 4, 5, 6, 7})}
				case *message.Execute:
					m.Options.NamedValues = map[string]*primitive.Value{"a_named_value": primitive.NewValue([]byte{1, 2, 3, 4, 5, 6, 7})}
				}
				perCase(gen.Case{Name: cs.Name + "/+named", Frame: f2})
			}
		}
		// (b) the length each message reports for itself equals the bytes its encoder writes
		mc := codecFor(cs.Frame.Header.OpCode)
		if mc != nil {
			atomic.AddInt64(&evals, 1)
			var want int
			var err1, err2 error
			buf := &bytes.Buffer{}
			if pv, site := vlib.Catch(func() {
				want, err1 = mc.EncodedLength(cs.Frame.Body.Message, v)
				err2 = mc.Encode(cs.Frame.Body.Message, buf, v)
			}); pv != nil {
				c.Violation(map[string]string{"kind": "panic", "site": site}, fmt.Sprintf("%s: message codec panics: %v", cs.Name, pv), cs.Name)
			} else if (err1 == nil) != (err2 == nil) {
				c.Violation(map[string]string{"kind": "length-vs-encode-error", "msg": fcheck.Kind(cs.Name)}, fmt.Sprintf("%s: EncodedLength err=%v, Encode err=%v", cs.Name, err1, err2), cs.Name)
			} else if err1 == nil && want != buf.Len() {
				c.Violation(map[string]string{"kind": "message-length", "msg": fcheck.Kind(cs.Name), "version": v.String(), "path": fcheck.PathClass(cs.Name)}, fmt.Sprintf("%s: EncodedLength reports %d, Encode writes %d bytes\n%s", cs.Name, want, buf.Len(), gen.Describe(cs.Frame.Body.Message)), cs.Name)
			}
		}
		for _, comp := range fcheck.Compressions(v) {
			codec := fcheck.Codec(comp)
			flags := []bool{false}
			if comp != primitive.CompressionNone && fcheck.Compressible(cs.Frame) {
				flags = []bool{true}
			} else if comp != primitive.CompressionNone && cs.Frame.Header.OpCode != primitive.OpCodeStartup {
				// OPTIONS and READY (empty bodies): the mutators never flag them, but a header flag set by hand
				// is encoded as asked - an empty body that travels compressed
				flags = []bool{false, true}
			}
			for _, cf := range flags {
				f := gen.Clone(cs.Frame).(*frame.Frame)
				if cf {
					f.Header.Flags |= primitive.HeaderFlagCompressed
				}
				atomic.AddInt64(&evals, 1)
				buf := &bytes.Buffer{}
				if err := codec.EncodeFrame(f, buf); err != nil {
					continue // refusal of a valid frame is C01's business
				}
				wire := append([]byte{}, buf.Bytes()...)
				hl := headerLen(v)
				declared := int(int32(binary.BigEndian.Uint32(wire[hl-4 : hl])))
				keys := map[string]string{"msg": fcheck.Kind(cs.Name), "version": v.String(), "compressed": fmt.Sprint(cf), "hdrflags": fmt.Sprintf("%04b", uint8(cs.Frame.Header.Flags)&0x0f), "direction": map[bool]string{true: "response", false: "request"}[cs.Frame.Header.IsResponse]}
				// (a) body length written in the header == body bytes emitted
				if declared != len(wire)-hl {
					k := map[string]string{"kind": "header-body-length", "compressed": keys["compressed"], "hdrflags": keys["hdrflags"], "direction": keys["direction"]}
					c.Violation(k, fmt.Sprintf("%s (%s): header declares a body of %d bytes, %d bytes were emitted", cs.Name, comp, declared, len(wire)-hl), map[string]interface{}{"case": cs.Name, "compression": comp, "wire_hex": hex.EncodeToString(wire[:min(len(wire), 512)])})
					continue
				}
				if f.Header.BodyLength != int32(declared) {
					c.Violation(map[string]string{"kind": "header-struct-body-length"}, fmt.Sprintf("%s: Header.BodyLength=%d after encoding, wire says %d", cs.Name, f.Header.BodyLength, declared), cs.Name)
				}
				// (c) the decoder consumes exactly header + declared length
				bad := false
				for _, sk := range sourceKinds {
					r := sk.mk(append(append([]byte{}, wire...), sentinel...))
					var err error
					if pv, site := vlib.Catch(func() { _, err = codec.DecodeFrame(r) }); pv != nil {
						c.Violation(map[string]string{"kind": "panic", "site": site}, fmt.Sprintf("%s: DecodeFrame panics: %v", cs.Name, pv), cs.Name)
						bad = true
						break
					}
					if err != nil {
						if sk.name != "reader" {
							keys["kind"] = "decoder-consumption"
							keys["source"] = sk.name
							c.Violation(keys, fmt.Sprintf("%s (%s): decodes from a bytes.Reader but not from a %s holding the frame followed by other bytes: %v", cs.Name, comp, sk.name, err), map[string]interface{}{"case": cs.Name, "compression": comp})
						}
						bad = true
						break // C01
					}
					atomic.AddInt64(&validated, 1)
					rest, _ := io.ReadAll(r)
					if !bytes.Equal(rest, sentinel) {
						keys["kind"] = "decoder-consumption"
						keys["source"] = sk.name
						c.Violation(keys, fmt.Sprintf("%s (%s, %s): after DecodeFrame %d bytes are left, expected the %d sentinel bytes", cs.Name, comp, sk.name, len(rest), len(sentinel)), map[string]interface{}{"case": cs.Name, "compression": comp})
					}
				}
				// ... and so does the raw decoder (header + raw body), from every kind of source
				for _, sk := range sourceKinds {
					if bad {
						break
					}
					r := sk.mk(append(append([]byte{}, wire...), sentinel...))
					var rf *frame.RawFrame
					var err error
					if pv, site := vlib.Catch(func() { rf, err = fcheck.RawCodec(comp).DecodeRawFrame(r) }); pv != nil {
						c.Violation(map[string]string{"kind": "panic", "site": site}, fmt.Sprintf("%s: DecodeRawFrame panics: %v", cs.Name, pv), cs.Name)
						break
					}
					rest, _ := io.ReadAll(r)
					if err != nil || !bytes.Equal(rest, sentinel) || !bytes.Equal(rf.Body, wire[hl:]) {
						keys["kind"] = "raw-decoder-consumption"
						keys["source"] = sk.name
						c.Violation(keys, fmt.Sprintf("%s (%s, %s): after DecodeRawFrame (err=%v) %d bytes are left, expected the %d sentinel bytes; raw body equals the emitted body: %v", cs.Name, comp, sk.name, err, len(rest), len(sentinel), rf != nil && bytes.Equal(rf.Body, wire[hl:])), map[string]interface{}{"case": cs.Name, "compression": comp})
						break
					}
					atomic.AddInt64(&validated, 1)
				}
				if bad {
					continue
				}
				// keep a small alphabet for the sequence check: simplest frame per (version, kind, compressed)
				ak := fmt.Sprintf("%v|%s|%v|%v", v, fcheck.Kind(cs.Name), cf, comp)
				mu.Lock()
				if old, ok := alphabet[ak]; !ok || len(cs.Name) < len(old.name) {
					alphabet[ak] = seqItem{cs.Name, wire, comp, gen.Clone(cs.Frame).(*frame.Frame)}
				}
				mu.Unlock()
			}
		}
	}
	n := fcheck.ForEach(c, o, perCase)
	// ---- sequences on one stream: per version and compression, all sequences of length <= L ----
	L := 2
	if c.Thorough() {
		L = 3
	}
	var seqs int64
	for _, v := range gen.Versions {
		for _, comp := range fcheck.Compressions(v) {
			var items []seqItem
			for _, it := range alphabet {
				if it.f.Header.Version == v && it.comp == comp {
					items = append(items, it)
				}
			}
			sortItems(items)
			if !c.Thorough() && len(items) > 40 {
				items = items[:40]
			}
			if c.Thorough() && len(items) > 48 {
				items = items[:48]
			}
			codec := fcheck.Codec(comp)
			total := 1
			for i := 0; i < L; i++ {
				total *= len(items)
			}
			vlib.ParFor(total, func(idx int) {
				var stream []byte
				var names []string
				x := idx
				var seq []seqItem
				for i := 0; i < L; i++ {
					it := items[x%len(items)]
					x /= len(items)
					seq = append(seq, it)
					stream = append(stream, it.wire...)
					names = append(names, it.name)
				}
				for _, sk := range sourceKinds {
					atomic.AddInt64(&seqs, 1)
					r := sk.mk(append([]byte{}, stream...))
					for i, it := range seq {
						got, err := codec.DecodeFrame(r)
						if err != nil {
							c.Violation(map[string]string{"kind": "sequence-decode-error", "position": fmt.Sprint(i), "msg": fcheck.Kind(it.name)}, fmt.Sprintf("frames %v written back-to-back: frame %d fails to decode: %v", names, i, err), names)
							return
						}
						want := gen.Clone(it.f).(*frame.Frame)
						want.Header.Flags = got.Header.Flags
						if d := gen.Equal(want, got, fcheck.Ignore); d != "" {
							c.Violation(map[string]string{"kind": "sequence-mismatch", "position": fmt.Sprint(i), "msg": fcheck.Kind(it.name)}, fmt.Sprintf("frames %v written back-to-back: frame %d decodes differently at %s", names, i, d), names)
							return
						}
					}
					if rest, _ := io.ReadAll(r); len(rest) != 0 {
						c.Violation(map[string]string{"kind": "sequence-leftover"}, fmt.Sprintf("frames %v written back-to-back: %d bytes left over", names, len(rest)), names)
					}
				}
			})
		}
	}
	prim := primitives(c)
	c.Sample(map[string]interface{}{"note": "cases are named version/KIND.variant/fieldpath=alternative; sequences are all L-tuples over one simplest frame per (version, kind, compression)"})
	c.Set("states", n)
	c.Set("transitions", evals+seqs+prim)
	c.Set("traces_validated_against_impl", validated+seqs)
	c.Set("frames_generated", n)
	c.Set("frame_evaluations", evals)
	c.Set("sequences", seqs)
	c.Set("sequence_length", L)
	c.Set("primitive_pairs_evaluated", prim)
	c.Set("bound", map[string]interface{}{"field_deviations": o.D, "type_depth": o.TypeDepth, "sequence_length": L})
	c.Set("rule", "per frame: header length field vs emitted bytes (uncompressed and compressed), EncodedLength vs Encode, decoder consumption with a sentinel; all L-tuples of frames on one stream; every LengthOf*/Write* pair over boundary domains (vints: all 64 magnitude classes x {2^k-1,2^k,2^k+1} x sign)")
	c.Finish()
}

func sortItems(items []seqItem) {
	for i := 1; i < len(items); i++ {
		for j := i; j > 0 && items[j].name < items[j-1].name; j-- {
			items[j], items[j-1] = items[j-1], items[j]
		}
	}
}

func min(a, b int) int {
	if a < b {
		return a
	}
	return b
}

// primitives checks every LengthOf*/Write* pair over boundary domains.
func primitives(c *vlib.Check) int64 {
	var n int64
	chk := func(what string, want int, werr error, write func(w *bytes.Buffer) error, desc string) {
		n++
		buf := &bytes.Buffer{}
		err := write(buf)
		if werr != nil || err != nil {
			if (werr == nil) != (err == nil) {
				c.Violation(map[string]string{"kind": "primitive-length-error", "notation": what}, fmt.Sprintf("%s(%s): length err=%v, write err=%v", what, desc, werr, err), desc)
			}
			return
		}
		if want != buf.Len() {
			c.Violation(map[string]string{"kind": "primitive-length", "notation": what}, fmt.Sprintf("LengthOf%s(%s)=%d but Write%s emits %d bytes", what, desc, want, what, buf.Len()), desc)
		}
	}
	// vints
	for k := 0; k <= 64; k++ {
		for _, d := range []int64{-1, 0, 1} {
			var u uint64
			if k == 64 {
				u = ^uint64(0)
			} else {
				u = uint64(1) << uint(k)
			}
			u += uint64(d)
			chk("UnsignedVint", primitive.LengthOfUnsignedVint(u), nil, func(w *bytes.Buffer) error {
				wr, err := primitive.WriteUnsignedVint(u, w)
				if err == nil && wr != w.Len() {
					return fmt.Errorf("WriteUnsignedVint returned %d, wrote %d", wr, w.Len())
				}
				return err
			}, fmt.Sprint(u))
			// read back
			{
				b := &bytes.Buffer{}
				_, _ = primitive.WriteUnsignedVint(u, b)
				got, rd, err := primitive.ReadUnsignedVint(bytes.NewReader(b.Bytes()))
				if err != nil || got != u || rd != b.Len() {
					c.Violation(map[string]string{"kind": "primitive-roundtrip", "notation": "UnsignedVint"}, fmt.Sprintf("unsigned vint %d: read back %d (read=%d of %d, err=%v)", u, got, rd, b.Len(), err), u)
				}
			}
			for _, s := range []int64{int64(u), -int64(u), int64(u >> 1), -int64(u >> 1)} {
				s := s
				chk("Vint", primitive.LengthOfVint(s), nil, func(w *bytes.Buffer) error {
					wr, err := primitive.WriteVint(s, w)
					if err == nil && wr != w.Len() {
						return fmt.Errorf("WriteVint returned %d, wrote %d", wr, w.Len())
					}
					return err
				}, fmt.Sprint(s))
				b := &bytes.Buffer{}
				_, _ = primitive.WriteVint(s, b)
				got, rd, err := primitive.ReadVint(bytes.NewReader(b.Bytes()))
				if err != nil || got != s || rd != b.Len() {
					c.Violation(map[string]string{"kind": "primitive-roundtrip", "notation": "Vint"}, fmt.Sprintf("vint %d: read back %d (read=%d of %d, err=%v)", s, got, rd, b.Len(), err), s)
				}
			}
		}
	}
	sizes := []int{0, 1, 255, 256, 65535}
	for _, sz := range sizes {
		s := string(gen.Blob(sz, 't'))
		b := gen.Blob(sz, 'r')
		chk("String", primitive.LengthOfString(s), nil, func(w *bytes.Buffer) error { return primitive.WriteString(s, w) }, fmt.Sprintf("len %d", sz))
		chk("LongString", primitive.LengthOfLongString(s), nil, func(w *bytes.Buffer) error { return primitive.WriteLongString(s, w) }, fmt.Sprintf("len %d", sz))
		chk("Bytes", primitive.LengthOfBytes(b), nil, func(w *bytes.Buffer) error { return primitive.WriteBytes(b, w) }, fmt.Sprintf("len %d", sz))
		chk("ShortBytes", primitive.LengthOfShortBytes(b), nil, func(w *bytes.Buffer) error { return primitive.WriteShortBytes(b, w) }, fmt.Sprintf("len %d", sz))
		chk("StringList", primitive.LengthOfStringList([]string{s, "", s}), nil, func(w *bytes.Buffer) error { return primitive.WriteStringList([]string{s, "", s}, w) }, fmt.Sprintf("3 x len %d", sz))
		chk("StringMap", primitive.LengthOfStringMap(map[string]string{s: s, "k": ""}), nil, func(w *bytes.Buffer) error { return primitive.WriteStringMap(map[string]string{s: s, "k": ""}, w) }, fmt.Sprintf("len %d", sz))
		chk("StringMultiMap", primitive.LengthOfStringMultiMap(map[string][]string{s: {s, ""}, "k": nil}), nil, func(w *bytes.Buffer) error {
			return primitive.WriteStringMultiMap(map[string][]string{s: {s, ""}, "k": nil}, w)
		}, fmt.Sprintf("len %d", sz))
		chk("BytesMap", primitive.LengthOfBytesMap(map[string][]byte{s: b, "n": nil}), nil, func(w *bytes.Buffer) error { return primitive.WriteBytesMap(map[string][]byte{s: b, "n": nil}, w) }, fmt.Sprintf("len %d", sz))
		for _, v := range gen.Versions {
			for _, val := range []*primitive.Value{{Type: primitive.ValueTypeRegular, Contents: b}, {Type: primitive.ValueTypeNull}, {Type: primitive.ValueTypeUnset}} {
				if val.Type == primitive.ValueTypeUnset && (v == gen.V2 || v == gen.V3) {
					continue
				}
				val, v := val, v
				l, lerr := primitive.LengthOfValue(val)
				chk("Value", l, lerr, func(w *bytes.Buffer) error { return primitive.WriteValue(val, w, v) }, fmt.Sprintf("type %d len %d %v", val.Type, sz, v))
				l, lerr = primitive.LengthOfPositionalValues([]*primitive.Value{val, val})
				chk("PositionalValues", l, lerr, func(w *bytes.Buffer) error {
					return primitive.WritePositionalValues([]*primitive.Value{val, val}, w, v)
				}, fmt.Sprintf("2 x type %d len %d", val.Type, sz))
				l, lerr = primitive.LengthOfNamedValues(map[string]*primitive.Value{"a": val, s: val})
				chk("NamedValues", l, lerr, func(w *bytes.Buffer) error {
					return primitive.WriteNamedValues(map[string]*primitive.Value{"a": val, s: val}, w, v)
				}, fmt.Sprintf("type %d len %d", val.Type, sz))
			}
		}
	}
	for _, ip := range [][]byte{{1, 2, 3, 4}, {0, 0, 0, 0, 0, 0, 0, 0, 0, 0, 0xff, 0xff, 1, 2, 3, 4}, {0x20, 1, 0xd, 0xb8, 0, 0, 0, 0, 0, 0, 0xff, 0, 0, 0x42, 0x83, 0x29}} {
		ip := ip
		l, lerr := primitive.LengthOfInetAddr(ip)
		chk("InetAddr", l, lerr, func(w *bytes.Buffer) error { return primitive.WriteInetAddr(ip, w) }, fmt.Sprint(ip))
		in := &primitive.Inet{Addr: ip, Port: 9042}
		l, lerr = primitive.LengthOfInet(in)
		chk("Inet", l, lerr, func(w *bytes.Buffer) error { return primitive.WriteInet(in, w) }, fmt.Sprint(ip))
		rs := []*primitive.FailureReason{{Endpoint: ip, Code: primitive.FailureCodeUnknown}}
		l, lerr = primitive.LengthOfReasonMap(rs)
		chk("ReasonMap", l, lerr, func(w *bytes.Buffer) error { return primitive.WriteReasonMap(rs, w) }, fmt.Sprint(ip))
	}
	depth := 2
	if c.Thorough() {
		depth = 3
	}
	for _, v := range gen.Versions {
		for _, t := range gen.DataTypes(depth) {
			if !gen.TypeValid(t, v) {
				continue
			}
			t, v := t, v
			l, lerr := datatype.LengthOfDataType(t, v)
			chk("DataType", l, lerr, func(w *bytes.Buffer) error { return datatype.WriteDataType(t, w, v) }, fmt.Sprintf("%v %v", t, v))
		}
	}
	return n
}
