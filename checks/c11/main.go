// C11 — CQL value codecs round-trip every value of every type.
package main

import (
	"bytes"
	"fmt"
	"reflect"
	"sync/atomic"

	"github.com/datastax/go-cassandra-native-protocol/datacodec"
	"github.com/datastax/go-cassandra-native-protocol/datatype"

	"verif/cql"
	"verif/gen"
	"verif/vlib"
)

var evals, validated int64

func main() {
	c := vlib.New("C11", "model_checking")
	// ---------------- scalars: every accepted representation x every domain value ----------------
	var distinct int64
	for _, dt := range cql.ScalarTypes() {
		codec, err := datacodec.NewCodec(dt)
		if err != nil {
			c.Broken("NewCodec(%v): %v", dt, err)
		}
		reps := cql.Reps(dt)
		dom := cql.Domain(dt, false)
		distinct += int64(len(dom) * len(reps))
		for _, v := range gen.Versions {
			for ri, r := range reps {
				for _, a := range dom {
					if a.Kind == 'I' && !cql.CqlRange(dt, a.I) {
						continue
					}
					src, ok := r.Make(a)
					if !ok {
						continue
					}
					for _, asPtr := range []bool{false, true} {
						in := src
						if asPtr {
							if src.Kind() == reflect.Ptr {
								continue
							}
							in = cql.PtrTo(src)
						}
						var pf reflect.Value
						for k := len(dom) - 1; k >= 0; k-- {
							if x, ok := r.Make(dom[k]); ok && dom[k].Key() != a.Key() {
								pf = x
								break
							}
						}
						roundTrip(c, codec, dt, v, r.Name, asPtr, in, r.T, a, ri == 0, pf)
					}
				}
			}
		}
	}
	// ---------------- composites ----------------
	depth := 2
	if c.Thorough() {
		depth = 3
	}
	var types []datatype.DataType
	for _, t := range gen.DataTypes(depth) {
		if cql.IsComposite(t) {
			types = append(types, t)
		}
	}
	var compositeCases int64
	vlib.ParFor(len(types), func(ti int) {
		dt := types[ti]
		for _, v := range gen.Versions {
			if !gen.TypeValid(dt, v) {
				continue
			}
			codec, err := datacodec.NewCodec(dt)
			if err != nil {
				c.Violation(map[string]string{"kind": "no-codec", "type": dt.Code().String()}, fmt.Sprintf("NewCodec(%v) fails: %v", dt, err), cql.TypeName(dt))
				return
			}
			for _, m := range cql.Modes() {
				gt, ok := cql.GoType(dt, m)
				if !ok {
					continue
				}
				nulls := m.Nullable() && v != gen.V2
				vals := cql.Values(dt, 3, nulls)
				var pf reflect.Value
				for k := len(vals) - 1; k >= 0 && !pf.IsValid(); k-- {
					if len(vals[k].Elems) >= 2 || k == 0 {
						if x, ok := cql.Build(dt, vals[k], gt); ok {
							pf = x
						}
					}
				}
				for _, a := range vals {
					src, ok := cql.Build(dt, a, gt)
					if !ok {
						continue
					}
					atomic.AddInt64(&compositeCases, 1)
					roundTrip(c, codec, dt, v, m.String(), false, src, gt, a, true, pf)
					if dt.Code().String() != "" && src.Kind() == reflect.Slice && src.Len() > 0 && m == cql.Plain {
						// arrays are accepted for lists, sets and tuples
						at := reflect.ArrayOf(src.Len(), gt.Elem())
						arr := reflect.New(at).Elem()
						reflect.Copy(arr, src)
						roundTrip(c, codec, dt, v, "array", false, arr, at, a, false)
					}
				}
			}
		}
	})
	// protocol v2 writes element lengths as unsigned shorts: an element, key or value of 65535 bytes must round-trip,
	// one of 65536 bytes cannot be expressed and must be refused - never accepted and written with a wrapped length
	for _, n := range []int{65535, 65536} {
		long := bytes.Repeat([]byte{0xAB}, n)
		for _, lc := range []struct {
			dt  datatype.DataType
			src interface{}
			mk  func() interface{}
		}{
			{datatype.NewList(datatype.Blob), [][]byte{{1}, long}, func() interface{} { return &[][]byte{} }},
			{datatype.NewMap(datatype.Int, datatype.Blob), map[int32][]byte{7: long}, func() interface{} { return &map[int32][]byte{} }},
			{datatype.NewMap(datatype.Varchar, datatype.Int), map[string]int32{string(long): 7}, func() interface{} { return &map[string]int32{} }},
		} {
			codec, err := datacodec.NewCodec(lc.dt)
			if err != nil {
				continue
			}
			atomic.AddInt64(&evals, 1)
			desc := fmt.Sprintf("%v (v2) with an element of %d bytes", lc.dt, n)
			enc, err, pv, _ := cql.Encode(codec, lc.src, gen.V2)
			if pv != nil {
				c.Violation(map[string]string{"kind": "encode-panic", "type": lc.dt.Code().String(), "rep": "long-element"}, fmt.Sprintf("%s: Encode panics: %v", desc, pv), desc)
				continue
			}
			if err != nil {
				if n <= 65535 {
					c.Violation(map[string]string{"kind": "encode-error", "type": lc.dt.Code().String(), "rep": "long-element"}, fmt.Sprintf("%s: refused although the format can express it: %v", desc, err), desc)
				}
				continue
			}
			d := lc.mk()
			_, derr, pv, _ := cql.Decode(codec, enc, d, gen.V2)
			if pv != nil || derr != nil || !reflect.DeepEqual(reflect.ValueOf(d).Elem().Interface(), lc.src) {
				c.Violation(map[string]string{"kind": "roundtrip-mismatch", "type": lc.dt.Code().String(), "rep": "long-element"}, fmt.Sprintf("%s: Encode accepted the value (%d bytes), decoding them gives err=%v panic=%v equal=false", desc, len(enc), derr, pv), desc)
				continue
			}
			atomic.AddInt64(&validated, 1)
		}
	}
	c.Sample(map[string]interface{}{"type": "list<int>", "mode": "ptr", "value": "L[I1,NULL,I0]", "go": "[]*int32"})
	c.Sample(map[string]interface{}{"type": "varint", "rep": "*big.Int", "value": "I-129"})
	c.Set("states", distinct+compositeCases)
	c.Set("transitions", evals)
	c.Set("traces_validated_against_impl", validated)
	c.Set("scalar_types", len(cql.ScalarTypes()))
	c.Set("composite_types", len(types))
	c.Set("composite_cases", compositeCases)
	c.Set("bound", map[string]interface{}{"type_depth": depth, "collection_width": 3})
	c.Set("rule", "scalar CQL type x version x accepted Go representation (value and pointer) x boundary domain; composite type trees (depth bound) x {plain, pointer-element, interface} Go shapes (+arrays) x {empty, 1, 2, 3 elements, NULL at every position}; each case: Encode, Decode into the same representation, Decode into *interface{}")
	c.Finish()
}

// prefills holds, per Go type, a "large" non-zero value used to pre-fill destinations: decoding must
// overwrite whatever the destination held.
func roundTrip(c *vlib.Check, codec datacodec.Codec, dt datatype.DataType, v gen.V, rep string, asPtr bool, src reflect.Value, t reflect.Type, a cql.AV, alsoIface bool, prefill ...reflect.Value) {
	atomic.AddInt64(&evals, 1)
	keys := func(kind string) map[string]string {
		return map[string]string{"kind": kind, "type": dt.Code().String(), "rep": rep}
	}
	desc := fmt.Sprintf("%v (%v) value %s as %s (pointer=%v)", dt, v, a, t, asPtr)
	enc, err, pv, site := cql.Encode(codec, src.Interface(), v)
	if pv != nil {
		k := keys("encode-panic")
		k["site"] = site
		c.Violation(k, fmt.Sprintf("%s: Encode panics: %v", desc, pv), desc)
		return
	}
	if err != nil {
		c.Violation(keys("encode-error"), fmt.Sprintf("%s: accepted representation refused by Encode: %v", desc, err), desc)
		return
	}
	dest := reflect.New(t)
	if t.Kind() == reflect.Ptr {
		// pointer-typed representation (*big.Int): the destination is the pointer itself
		p := reflect.New(t.Elem())
		dest.Elem().Set(p)
	}
	var target interface{} = dest.Interface()
	if t.Kind() == reflect.Ptr {
		target = dest.Elem().Interface()
	}
	// every Decode gets a private copy of the bytes (keeping nil as nil): a decoded value may legitimately
	// alias the bytes it was decoded from, and an encoding may alias its source
	private := func(b []byte) []byte {
		if b == nil {
			return nil
		}
		return append([]byte{}, b...)
	}
	wasNull, err, pv, site := cql.Decode(codec, private(enc), target, v)
	if pv != nil {
		k := keys("decode-panic")
		k["site"] = site
		c.Violation(k, fmt.Sprintf("%s: Decode panics: %v (bytes %x)", desc, pv, clip(enc)), desc)
		return
	}
	if err != nil {
		c.Violation(keys("decode-error"), fmt.Sprintf("%s: own encoding %x does not decode: %v", desc, clip(enc), err), desc)
		return
	}
	if wasNull != a.IsNull() {
		c.Violation(keys("wasnull"), fmt.Sprintf("%s: wasNull=%v (bytes %x)", desc, wasNull, clip(enc)), desc)
		return
	}
	got := cql.Abstract(dt, dest.Elem())
	if got.Key() != a.Key() {
		c.Violation(keys("roundtrip-mismatch"), fmt.Sprintf("%s: encoded as %x, decoded %s", desc, clip(enc), got), desc)
		return
	}
	atomic.AddInt64(&validated, 1)
	// ownership: the caller may do what it likes with the bytes Encode returned and with the value Decode
	// produced; a second Encode / Decode of the same input must come out as the first did
	encSnap := private(enc)
	isNil := enc == nil
	if cql.Scribble(dest) > 0 {
		atomic.AddInt64(&evals, 1)
		enc2, err, pv, _ := cql.Encode(codec, src.Interface(), v)
		same := bytes.Equal(enc2, encSnap)
		if !same && pv == nil && err == nil && containsMap(t, 0) {
			// map entries are written in Go's iteration order: compare what the bytes denote
			d3 := reflect.New(t)
			if _, err3, pv3, _ := cql.Decode(codec, enc2, d3.Interface(), v); err3 == nil && pv3 == nil && cql.Abstract(dt, d3.Elem()).Key() == a.Key() {
				same = true
			}
		}
		if pv != nil || err != nil || !same || (enc2 == nil) != isNil {
			c.Violation(keys("result-not-owned-by-caller"), fmt.Sprintf("%s: after the caller changed the value Decode gave it, Encode yields %x instead of %x (err %v, panic %v)", desc, clip(enc2), clip(encSnap), err, pv), desc)
			return
		}
		dest2 := reflect.New(t)
		var target2 interface{} = dest2.Interface()
		if t.Kind() == reflect.Ptr {
			dest2.Elem().Set(reflect.New(t.Elem()))
			target2 = dest2.Elem().Interface()
		}
		wn2, err, pv, _ := cql.Decode(codec, private(encSnap), target2, v)
		if got2 := cql.Abstract(dt, dest2.Elem()); pv != nil || err != nil || wn2 != wasNull || got2.Key() != a.Key() {
			c.Violation(keys("result-not-owned-by-caller"), fmt.Sprintf("%s: after the caller changed the value it was given, decoding %x again yields %s (err %v, panic %v)", desc, clip(encSnap), got2, err, pv), desc)
			return
		}
	}
	enc = encSnap
	for _, pf := range prefill {
		if !pf.IsValid() || pf.Type() != t || t.Kind() == reflect.Ptr || containsMap(t, 0) {
			continue // maps are filled in place (entries are merged, as encoding/json does): not demanded
		}
		d2 := reflect.New(t)
		d2.Elem().Set(reflect.ValueOf(gen.Clone(pf.Interface())))
		atomic.AddInt64(&evals, 1)
		wn, err, pv, _ := cql.Decode(codec, enc, d2.Interface(), v)
		if pv != nil || err != nil {
			continue
		}
		got := cql.Abstract(dt, d2.Elem())
		if wn != a.IsNull() || got.Key() != a.Key() {
			c.Violation(keys("prefilled-destination"), fmt.Sprintf("%s: decoded into a destination that already held %s: result %s", desc, cql.Abstract(dt, pf), got), desc)
		}
	}
	if alsoIface {
		var any interface{}
		wasNull, err, pv, site = cql.Decode(codec, private(enc), &any, v)
		if pv != nil {
			k := keys("decode-panic")
			k["site"], k["rep"] = site, "*interface{}"
			c.Violation(k, fmt.Sprintf("%s: Decode into *interface{} panics: %v", desc, pv), desc)
			return
		}
		if err != nil {
			k := keys("decode-error")
			k["rep"] = "*interface{}"
			c.Violation(k, fmt.Sprintf("%s: decoding %x into *interface{} fails: %v", desc, clip(enc), err), desc)
			return
		}
		got := cql.Abstract(dt, reflect.ValueOf(&any).Elem())
		if got.Key() != a.Key() {
			k := keys("preferred-type-mismatch")
			k["rep"] = "*interface{}"
			c.Violation(k, fmt.Sprintf("%s: decoded into *interface{} as %T holding %s", desc, any, got), desc)
			return
		}
		if any != nil {
			if pt, err := datacodec.PreferredGoType(dt); err == nil && reflect.TypeOf(any) != pt {
				k := keys("preferred-type-wrong")
				c.Violation(k, fmt.Sprintf("%s: *interface{} received a %T, documented preferred type is %v", desc, any, pt), desc)
			}
		}
		atomic.AddInt64(&validated, 1)
		if cql.Scribble(reflect.ValueOf(&any)) > 0 {
			var any2 interface{}
			atomic.AddInt64(&evals, 1)
			_, err, pv, _ := cql.Decode(codec, private(enc), &any2, v)
			if got2 := cql.Abstract(dt, reflect.ValueOf(&any2).Elem()); pv != nil || err != nil || got2.Key() != a.Key() {
				k := keys("result-not-owned-by-caller")
				k["rep"] = "*interface{}"
				c.Violation(k, fmt.Sprintf("%s: after the caller changed the value it received through *interface{}, decoding %x again yields %s (err %v, panic %v)", desc, clip(enc), got2, err, pv), desc)
			}
		}
	}
}

func clip(b []byte) []byte {
	if len(b) > 32 {
		return b[:32]
	}
	return b
}

func containsMap(t reflect.Type, d int) bool {
	if d > 6 {
		return false
	}
	switch t.Kind() {
	case reflect.Map:
		return true
	case reflect.Interface:
		return true // may hold a map
	case reflect.Ptr, reflect.Slice, reflect.Array:
		return containsMap(t.Elem(), d+1)
	case reflect.Struct:
		for i := 0; i < t.NumField(); i++ {
			if containsMap(t.Field(i).Type, d+1) {
				return true
			}
		}
	}
	return false
}
