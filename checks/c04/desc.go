package main

import (
	"fmt"
	"os"
	"runtime/pprof"
	"strconv"
	"time"

	"verif/mutfam"
)

func init() {
	if len(os.Args) > 3 && os.Args[1] == "describe" {
		i, _ := strconv.Atoi(os.Args[2])
		m, _ := strconv.Atoi(os.Args[3])
		fmt.Printf("%+v\n", mutfam.Describe(i, m))
		os.Exit(0)
	}
	if len(os.Args) > 4 && os.Args[1] == "runrange" {
		i, _ := strconv.Atoi(os.Args[2])
		lo, _ := strconv.Atoi(os.Args[3])
		hi, _ := strconv.Atoi(os.Args[4])
		if pf := os.Getenv("CPUPROFILE"); pf != "" {
			f, _ := os.Create(pf)
			pprof.StartCPUProfile(f)
			defer pprof.StopCPUProfile()
		}
		for m := lo; m < hi; m++ {
			t0 := time.Now()
			mutfam.RunOne(i, m)
			if d := time.Since(t0); d > 20*time.Millisecond {
				fmt.Printf("%d: %v %v\n", m, d, mutfam.Describe(i, m).(map[string]interface{})["mutation"])
			}
		}
		pprof.StopCPUProfile()
		os.Exit(0)
	}
	if len(os.Args) > 1 && os.Args[1] == "kinds" {
		for k, v := range mutfam.KindStats() {
			fmt.Println(k, v)
		}
		os.Exit(0)
	}
	if len(os.Args) > 3 && os.Args[1] == "runone" {
		i, _ := strconv.Atoi(os.Args[2])
		m, _ := strconv.Atoi(os.Args[3])
		mutfam.Trace = true
		fmt.Printf("%+v\n", mutfam.Describe(i, m))
		for _, f := range mutfam.RunOne(i, m) {
			fmt.Printf("FINDING %v: %s\n", f.Keys, f.What)
		}
		fmt.Println("done")
		os.Exit(0)
	}
}
