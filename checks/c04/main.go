// C04 — decoders never panic, fault or hang on arbitrary input bytes.
// E1 as fault enumeration: valid encodings from the grammars (frames of every message kind and
// version and compression, segments, CQL values of every type tree, compressed blocks, type
// descriptors) with EVERY mutation of a fixed scheme (every 4-/2-/1-byte field value at every
// offset, +-1 of every field, truncation at every offset, every bit flip, extensions), plus all
// byte strings up to a small length and all header prefixes, into every decoding entry point,
// run in memory-limited sub-processes.
package main

import (
	"bytes"
	"fmt"
	"sync/atomic"
	"time"

	"github.com/datastax/go-cassandra-native-protocol/compression/lz4"
	"github.com/datastax/go-cassandra-native-protocol/compression/snappy"
	"github.com/datastax/go-cassandra-native-protocol/datatype"
	"github.com/datastax/go-cassandra-native-protocol/frame"
	"github.com/datastax/go-cassandra-native-protocol/message"
	"github.com/datastax/go-cassandra-native-protocol/primitive"
	"github.com/datastax/go-cassandra-native-protocol/segment"

	"verif/gen"
	"verif/iso"
	"verif/mutfam"
	"verif/vlib"
)

func main() {
	if iso.IsWorker() {
		iso.WorkerMain()
		return
	}
	c := vlib.New("C04", "fault_enumeration")
	t0 := time.Now()
	n := mutfam.BuildCorpus(c.Thorough())
	fmt.Printf("corpus: %d items in %.1fs\n", n, time.Since(t0).Seconds())
	// the cheap, complete stages first (all short byte strings, all header prefixes), then the mutants: a
	// deadline cuts the later mutants of every item, never a whole stage
	t1 := time.Now()
	small := smallScope(c)
	fmt.Printf("small scope: %d inputs in %.1fs\n", small, time.Since(t1).Seconds())
	t1 = time.Now()
	hdr := headers(c)
	fmt.Printf("header prefixes: %d in %.1fs\n", hdr, time.Since(t1).Seconds())
	fam := iso.Lookup("c04")
	st, err := iso.Run(fam, 768<<20, 120*time.Second, c.Deadline(), mutfam.Describe)
	if err != nil {
		c.Broken("isolated executor: %v", err)
	}
	fmt.Printf("mutants: %d cases in %.1fs (alloc kills %d, budget stops %d, recycles %d)\n", st.Cases, time.Since(t0).Seconds(), st.AllocKills, iso.SlowKills, st.Recycles)
	report(c, st)
	slowKinds := map[string]int{}
	for _, sc := range iso.SlowCases {
		d := mutfam.Describe(sc[0], sc[1]).(map[string]interface{})
		slowKinds[fmt.Sprint(d["kind"])+"/"+fmt.Sprint(d["name"])]++
	}
	c.Set("case_budget_stops_by_item", slowKinds)
	deep, err := iso.Run(iso.Lookup("c04-deep"), 3<<30, 300*time.Second, c.Deadline(), func(i, m int) interface{} { return fmt.Sprintf("deep family item %d depth index %d", i, m) })
	if err != nil {
		c.Broken("isolated executor: %v", err)
	}
	report(c, deep)
	c.Sample(mutfam.Describe(0, 0))
	c.Sample(mutfam.Describe(n/2, 7))
	total := st.Cases + deep.Cases + small + hdr
	c.Set("evaluations", total)
	c.Set("distinct_nontrivial", total-int64(n))
	c.Set("corpus_items", n)
	c.Set("mutants_run", st.Cases)
	c.Set("killed_by_allocation_limit", st.AllocKills+deep.AllocKills)
	c.Set("skipped_declared_body_over_1MiB", iso.Skipped)
	c.Set("stopped_by_case_budget_400ms", iso.SlowKills)
	c.Set("deep_nesting_cases", deep.Cases)
	c.Set("small_scope_inputs", small)
	c.Set("header_prefixes", hdr)
	if st.Truncated || deep.Truncated {
		c.Cap("internal deadline reached in the isolated executor")
	}
	c.Set("rule", "a case = (valid encoding, mutation) or a short byte string or a header prefix; mutants are distinct by construction (one of them per corpus item is the unmutated encoding, excluded from distinct_nontrivial); each case is fed to every decoding entry point that applies; oracle: returns (value | error), never a panic, fatal error or hang (120 s watchdog); process deaths by allocation failure under a hard address-space limit (workers never garbage-collect and are recycled after mapping 24 GiB, so that huge untouched allocations cost microseconds) are counted, not judged")
	c.Assumptions = []string{"allocation amplification (a declared count of 2^31 elements) is outside the property's wording and is not judged", "mutations are single-site; inputs that need two coordinated mutations are not covered"}
	c.Finish()
}

func report(c *vlib.Check, st *iso.Stats) {
	for _, f := range st.Findings {
		c.Violation(f.Keys, f.What, f.Replay)
	}
}

// smallScope: every byte string up to length L into the entry points that need no header.
func smallScope(c *vlib.Check) int64 {
	L := 2
	if c.Thorough() {
		L = 3
	}
	var n int64
	segPlain, segLz := segment.NewCodec(), segment.NewCodecWithCompression(&lz4.Compressor{})
	fc := frame.NewRawCodec()
	l4, sn := lz4.Compressor{}, snappy.Compressor{}
	total := 1
	for i := 0; i < L; i++ {
		total *= 256
	}
	for l := 0; l <= L; l++ {
		cnt := 1
		for i := 0; i < l; i++ {
			cnt *= 256
		}
		l := l
		vlib.ParFor(cnt, func(x int) {
			b := make([]byte, l)
			for i := 0; i < l; i++ {
				b[i] = byte(x >> (8 * uint(i)))
			}
			atomic.AddInt64(&n, 1)
			try := func(name string, f func()) {
				if pv, site := vlib.Catch(f); pv != nil {
					c.Violation(map[string]string{"kind": "panic", "entry": name, "site": site, "scope": "small"}, fmt.Sprintf("%s(%x) panics: %v", name, b, pv), fmt.Sprintf("%x", b))
				}
			}
			r := func() *bytes.Reader { return bytes.NewReader(b) }
			try("ReadString", func() { _, _ = primitive.ReadString(r()) })
			try("ReadLongString", func() { _, _ = primitive.ReadLongString(r()) })
			try("ReadBytes", func() { _, _ = primitive.ReadBytes(r()) })
			try("ReadShortBytes", func() { _, _ = primitive.ReadShortBytes(r()) })
			if l <= 1 || (l == 2 && (b[0] == 0 || b[0] == 1 || b[0] == 0x7F || b[0] == 0x80 || b[0] == 0xFF)) {
				try("ReadStringList", func() { _, _ = primitive.ReadStringList(r()) })
				try("ReadStringMap", func() { _, _ = primitive.ReadStringMap(r()) })
				try("ReadStringMultiMap", func() { _, _ = primitive.ReadStringMultiMap(r()) })
				try("ReadBytesMap", func() { _, _ = primitive.ReadBytesMap(r()) })
				try("ReadReasonMap", func() { _, _ = primitive.ReadReasonMap(r()) })
			}
			try("ReadInet", func() { _, _ = primitive.ReadInet(r()) })
			try("ReadInetAddr", func() { _, _ = primitive.ReadInetAddr(r()) })
			try("ReadUuid", func() { _, _ = primitive.ReadUuid(r()) })
			try("ReadVint", func() { _, _, _ = primitive.ReadVint(r()) })
			try("ReadUnsignedVint", func() { _, _, _ = primitive.ReadUnsignedVint(r()) })
			// message decoders pre-size maps and slices from [short] counts (a 64K-entry map per call): run them on
			// all inputs up to 1 byte and on the 2-byte inputs whose first byte is a boundary value
			withMessages := l <= 1 || b[0] == 0 || b[0] == 1 || b[0] == 0x7F || b[0] == 0x80 || b[0] == 0xFF
			for _, v := range gen.Versions {
				v := v
				try("ReadValue", func() { _, _ = primitive.ReadValue(r(), v) })
				if withMessages {
					try("ReadPositionalValues", func() { _, _ = primitive.ReadPositionalValues(r(), v) })
					try("ReadNamedValues", func() { _, _ = primitive.ReadNamedValues(r(), v) })
				}
				try("ReadStreamId", func() { _, _ = primitive.ReadStreamId(r(), v) })
				try("ReadDataType", func() { _, _ = datatype.ReadDataType(r(), v) })
				if withMessages && l <= 2 {
					for _, mc := range message.DefaultMessageCodecs {
						mc := mc
						try("message.Decode", func() { _, _ = mc.Decode(r(), v) })
					}
				}
			}
			try("DecodeSegment", func() { _, _ = segPlain.DecodeSegment(r()) })
			try("DecodeSegment(lz4)", func() { _, _ = segLz.DecodeSegment(r()) })
			try("DecodeFrame", func() { _, _ = fc.DecodeFrame(r()) })
			try("DecodeHeader", func() { _, _ = fc.DecodeHeader(r()) })
			try("lz4.Decompress", func() { _ = l4.Decompress(r(), &bytes.Buffer{}) })
			try("lz4.DecompressWithLength", func() { _ = l4.DecompressWithLength(r(), &bytes.Buffer{}) })
			try("snappy.DecompressWithLength", func() { _ = sn.DecompressWithLength(r(), &bytes.Buffer{}) })
		})
	}
	c.Set("small_scope_max_length", L)
	return n
}

// headers: all 2^24 (version byte, flags, opcode) prefixes completed to a header with an empty body.
func headers(c *vlib.Check) int64 {
	var n int64
	fc := frame.NewCodec()
	vlib.ParFor(256, func(vb int) {
		for fl := 0; fl < 256; fl++ {
			if !c.Thorough() && fl&0xF0 != 0 && fl != 0xFF {
				continue // quick: the 16 combinations of the defined flag bits plus 0xFF
			}
			for op := 0; op < 256; op++ {
				atomic.AddInt64(&n, 1)
				for _, sid := range [][]byte{{0, 1}, {0xFF}} {
					b := append([]byte{byte(vb), byte(fl)}, sid...)
					b = append(b, byte(op), 0, 0, 0, 0)
					if pv, site := vlib.Catch(func() { _, _ = fc.DecodeFrame(bytes.NewReader(b)) }); pv != nil {
						c.Violation(map[string]string{"kind": "panic", "entry": "DecodeFrame", "site": site, "scope": "header"}, fmt.Sprintf("DecodeFrame(%x) panics: %v", b, pv), fmt.Sprintf("%x", b))
					}
				}
			}
		}
	})
	return n
}
