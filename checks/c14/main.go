// C14 — NULL is preserved and distinguishable in CQL value codecs.
package main

import (
	"fmt"
	"reflect"
	"sync/atomic"

	"github.com/datastax/go-cassandra-native-protocol/datacodec"
	"github.com/datastax/go-cassandra-native-protocol/datatype"

	"verif/cql"
	"verif/gen"
	"verif/vlib"
)

var evals, validated int64

func isZero(v reflect.Value) bool {
	switch v.Kind() {
	case reflect.Slice, reflect.Map, reflect.Ptr, reflect.Interface:
		return v.IsNil()
	}
	return reflect.DeepEqual(v.Interface(), reflect.Zero(v.Type()).Interface())
}

func main() {
	c := vlib.New("C14", "model_checking")
	type target struct {
		dt    datatype.DataType
		name  string
		t     reflect.Type
		fill  func() (reflect.Value, bool) // a non-zero value of type t
	}
	var targets []target
	for _, dt := range cql.ScalarTypes() {
		dt := dt
		dom := cql.Domain(dt, false)
		for _, r := range cql.Reps(dt) {
			r := r
			targets = append(targets, target{dt, r.Name, r.T, func() (reflect.Value, bool) {
				for i := len(dom) - 1; i >= 0; i-- {
					if v, ok := r.Make(dom[i]); ok && !isZero(v) {
						return v, true
					}
				}
				return reflect.Value{}, false
			}})
		}
	}
	depth := 2
	if c.Thorough() {
		depth = 3
	}
	var ctypes []datatype.DataType
	for _, t := range gen.DataTypes(depth) {
		if cql.IsComposite(t) {
			ctypes = append(ctypes, t)
		}
	}
	for _, dt := range ctypes {
		dt := dt
		for _, m := range cql.Modes() {
			gt, ok := cql.GoType(dt, m)
			if !ok {
				continue
			}
			targets = append(targets, target{dt, m.String(), gt, func() (reflect.Value, bool) {
				vals := cql.Values(dt, 3, false)
				for i := len(vals) - 1; i >= 0; i-- {
					if v, ok := cql.Build(dt, vals[i], gt); ok && !isZero(v) {
						return v, true
					}
				}
				return reflect.Value{}, false
			}})
		}
	}
	vlib.ParFor(len(targets), func(ti int) {
		tg := targets[ti]
		codec, err := datacodec.NewCodec(tg.dt)
		if err != nil {
			return
		}
		keys := func(kind string) map[string]string {
			return map[string]string{"kind": kind, "type": tg.dt.Code().String(), "rep": tg.name}
		}
		for _, v := range gen.Versions {
			if !gen.TypeValid(tg.dt, v) {
				continue
			}
			// ---- encoding nils: untyped nil, nil pointer to the representation, nil slice / map ----
			var sources []interface{}
			sources = append(sources, nil)
			if tg.t.Kind() != reflect.Ptr {
				sources = append(sources, reflect.Zero(reflect.PtrTo(tg.t)).Interface())
			}
			switch tg.t.Kind() {
			case reflect.Slice, reflect.Map, reflect.Ptr:
				sources = append(sources, reflect.Zero(tg.t).Interface())
			}
			for _, src := range sources {
				atomic.AddInt64(&evals, 1)
				enc, err, pv, site := cql.Encode(codec, src, v)
				desc := fmt.Sprintf("%v (%v): Encode(%T nil)", tg.dt, v, src)
				switch {
				case pv != nil:
					k := keys("encode-nil-panic")
					k["site"] = site
					c.Violation(k, fmt.Sprintf("%s panics: %v", desc, pv), desc)
				case err != nil:
					c.Violation(keys("encode-nil-error"), fmt.Sprintf("%s fails: %v", desc, err), desc)
				case enc != nil:
					c.Violation(keys("encode-nil-not-null"), fmt.Sprintf("%s yields %x instead of a NULL value", desc, enc), desc)
				default:
					atomic.AddInt64(&validated, 1)
				}
			}
			// ---- decoding a NULL into a pre-filled destination ----
			if pre, ok := tg.fill(); ok && tg.t.Kind() != reflect.Ptr {
				atomic.AddInt64(&evals, 1)
				dest := reflect.New(tg.t)
				dest.Elem().Set(reflect.ValueOf(gen.Clone(pre.Interface())))
				wasNull, err, pv, site := cql.Decode(codec, nil, dest.Interface(), v)
				desc := fmt.Sprintf("%v (%v): Decode(NULL) into *%s holding %v", tg.dt, v, tg.t, cql.Abstract(tg.dt, pre))
				switch {
				case pv != nil:
					k := keys("decode-null-panic")
					k["site"] = site
					c.Violation(k, fmt.Sprintf("%s panics: %v", desc, pv), desc)
				case err != nil:
					c.Violation(keys("decode-null-error"), fmt.Sprintf("%s fails: %v", desc, err), desc)
				case !wasNull:
					c.Violation(keys("decode-null-not-reported"), fmt.Sprintf("%s: wasNull=false", desc), desc)
				case !isZero(dest.Elem()):
					c.Violation(keys("decode-null-not-zeroed"), fmt.Sprintf("%s: destination still holds %v", desc, dest.Elem().Interface()), desc)
				default:
					atomic.AddInt64(&validated, 1)
				}
			}
			// *interface{} destination holding something
			{
				atomic.AddInt64(&evals, 1)
				var any interface{} = "previous"
				wasNull, err, pv, _ := cql.Decode(codec, nil, &any, v)
				if pv != nil || err != nil || !wasNull || any != nil {
					k := keys("decode-null-interface")
					c.Violation(k, fmt.Sprintf("%v (%v): Decode(NULL) into *interface{}: wasNull=%v err=%v panic=%v dest=%v", tg.dt, v, wasNull, err, pv, any), fmt.Sprint(tg.dt))
				} else {
					atomic.AddInt64(&validated, 1)
				}
			}
			// ---- nested NULLs: survive for v3+, refused for v2 collections ----
			if cql.IsComposite(tg.dt) && tg.name != "plain" {
				for _, a := range cql.Values(tg.dt, 3, true) {
					if !hasNull(a) {
						continue
					}
					src, ok := cql.Build(tg.dt, a, tg.t)
					if !ok {
						continue
					}
					atomic.AddInt64(&evals, 1)
					_, expressible := cql.Serialize(tg.dt, a, v)
					enc, err, pv, site := cql.Encode(codec, src.Interface(), v)
					desc := fmt.Sprintf("%v (%v) value %s as %s", tg.dt, v, a, tg.t)
					if pv != nil {
						k := keys("nested-null-panic")
						k["site"] = site
						c.Violation(k, fmt.Sprintf("%s: Encode panics: %v", desc, pv), desc)
						continue
					}
					if !expressible {
						if err == nil {
							c.Violation(keys("nested-null-accepted-in-v2"), fmt.Sprintf("%s: protocol v2 collections cannot express a NULL element, yet Encode returned %x", desc, enc), desc)
						} else {
							atomic.AddInt64(&validated, 1)
						}
						continue
					}
					if err != nil {
						c.Violation(keys("nested-null-refused"), fmt.Sprintf("%s: Encode refuses a NULL element: %v", desc, err), desc)
						continue
					}
					// destinations: one that already holds a full non-zero value, and - for slices - one of length 0
					// whose spare capacity still holds the previous row (dest = dest[:0] between rows)
					for variant := 0; variant < 2; variant++ {
						dest := reflect.New(tg.t)
						how := "a destination holding a previous value"
						if pf, ok := tg.fill(); ok && !containsMap(tg.t, 0) {
							dest.Elem().Set(reflect.ValueOf(gen.Clone(pf.Interface())))
							if variant == 1 {
								if tg.t.Kind() != reflect.Slice || dest.Elem().Len() == 0 {
									continue
								}
								dest.Elem().Set(dest.Elem().Slice(0, 0))
								how = "an emptied slice whose capacity still holds the previous value"
							}
						} else if variant == 1 {
							continue
						}
						atomic.AddInt64(&evals, 1)
						wasNull, err, pv, site := cql.Decode(codec, enc, dest.Interface(), v)
						if pv != nil {
							k := keys("nested-null-panic")
							k["site"] = site
							c.Violation(k, fmt.Sprintf("%s: Decode panics: %v", desc, pv), desc)
							break
						}
						got := cql.Abstract(tg.dt, dest.Elem())
						if err != nil || wasNull || got.Key() != a.Key() {
							c.Violation(keys("nested-null-lost"), fmt.Sprintf("%s: encoded %x, decoded into %s: %s (wasNull=%v err=%v)", desc, enc, how, got, wasNull, err), desc)
							break
						}
						atomic.AddInt64(&validated, 1)
					}
				}
			}
		}
	})
	// ---- empty string / empty blob are not NULL ----
	for _, dt := range []datatype.DataType{datatype.Varchar, datatype.Ascii, datatype.Blob} {
		codec, _ := datacodec.NewCodec(dt)
		for _, src := range []interface{}{"", []byte{}} {
			evals++
			enc, err := codec.Encode(src, gen.V4)
			if err != nil || enc == nil {
				c.Violation(map[string]string{"kind": "empty-is-null", "type": dt.Code().String(), "direction": "encode"}, fmt.Sprintf("%v: Encode(%#v) gives %v, %v: an empty value must not become NULL", dt, src, enc, err), fmt.Sprint(dt))
				continue
			}
			var s string = "previous"
			wasNull, err := codec.Decode(enc, &s, gen.V4)
			if err != nil || wasNull || s != "" {
				c.Violation(map[string]string{"kind": "empty-is-null", "type": dt.Code().String(), "direction": "decode"}, fmt.Sprintf("%v: decoding an empty (non-null) value: wasNull=%v err=%v dest=%q", dt, wasNull, err, s), fmt.Sprint(dt))
				continue
			}
			validated++
		}
	}
	c.Sample(map[string]interface{}{"type": "list<int>", "go": "[]*int32", "value": "L[I1,NULL]", "v2": "must be refused", "v3+": "must survive"})
	c.Sample(map[string]interface{}{"type": "bigint", "destination": "*int64 holding 9223372036854775807", "input": "NULL", "expected": "wasNull=true, destination 0"})
	c.Set("states", int64(len(targets)))
	c.Set("transitions", evals)
	c.Set("traces_validated_against_impl", validated)
	c.Set("targets", len(targets))
	c.Set("bound", map[string]interface{}{"type_depth": depth, "width": 3})
	c.Set("rule", "target = (CQL type, accepted Go representation); per target and version: Encode of untyped nil, nil *T, nil slice/map; Decode of NULL into a pre-filled destination and into *interface{}; NULL at every element position of collections, tuples, UDTs (round trip from v3, refusal in v2); empty strings/blobs stay non-null")
	c.Finish()
}

func hasNull(a cql.AV) bool {
	for _, e := range append(append([]cql.AV{}, a.Elems...), a.Keys...) {
		if e.IsNull() || hasNull(e) {
			return true
		}
	}
	return false
}

func containsMap(t reflect.Type, d int) bool {
	if d > 6 {
		return false
	}
	switch t.Kind() {
	case reflect.Map, reflect.Interface:
		return true
	case reflect.Ptr, reflect.Slice, reflect.Array:
		return containsMap(t.Elem(), d+1)
	case reflect.Struct:
		for i := 0; i < t.NumField(); i++ {
			if containsMap(t.Field(i).Type, d+1) {
				return true
			}
		}
	}
	return false
}
