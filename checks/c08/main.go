// C08 — compression is lossless for every input.
package main

import (
	"bytes"
	"fmt"
	"io"
	"sync/atomic"

	"github.com/datastax/go-cassandra-native-protocol/client"
	"github.com/datastax/go-cassandra-native-protocol/compression/lz4"
	"github.com/datastax/go-cassandra-native-protocol/compression/snappy"
	"github.com/datastax/go-cassandra-native-protocol/frame"
	"github.com/datastax/go-cassandra-native-protocol/message"
	"github.com/datastax/go-cassandra-native-protocol/primitive"
	"github.com/datastax/go-cassandra-native-protocol/segment"

	"verif/fcheck"
	"verif/gen"
	"verif/vlib"
)

type format struct {
	name   string
	max    int
	comp   func(src io.Reader, dst *bytes.Buffer) error
	decomp func(src io.Reader, dst *bytes.Buffer) error
}

// the source a compressor reads from is part of the environment: the library special-cases some
// reader types. Every (de)compression is run from each kind; "mid-reader" is a bytes.Reader whose
// first bytes were consumed by an earlier read (as after reading a header from the same stream).
type plainReader struct{ r io.Reader }

func (p plainReader) Read(b []byte) (int, error) { return p.r.Read(b) }

var srcKinds = []struct {
	name string
	mk   func(b []byte) io.Reader
}{
	{"buffer", func(b []byte) io.Reader { return bytes.NewBuffer(append([]byte{}, b...)) }},
	{"reader", func(b []byte) io.Reader { return bytes.NewReader(append([]byte{}, b...)) }},
	{"mid-reader", func(b []byte) io.Reader {
		r := bytes.NewReader(append([]byte{0xde, 0xad, 0xbe, 0xef, 0x01}, b...))
		_, _ = io.ReadFull(r, make([]byte, 5))
		return r
	}},
	{"plain", func(b []byte) io.Reader { return plainReader{bytes.NewReader(append([]byte{}, b...))} }},
	{"limited", func(b []byte) io.Reader {
		return io.LimitReader(bytes.NewReader(append(append([]byte{}, b...), 0x55, 0x55, 0x55)), int64(len(b)))
	}},
}

// lz4cause: see fcheck.LZ4Cause; the length-prefixed format carries 4 bytes before the block.
func lz4cause(format string, in, compressed []byte) string {
	switch format {
	case "lz4-raw":
		return fcheck.LZ4Cause(in, compressed)
	case "lz4-with-length":
		if len(compressed) >= 4 {
			return fcheck.LZ4Cause(in, compressed[4:])
		}
	}
	return ""
}

func main() {
	c := vlib.New("C08", "model_checking")
	l4 := lz4.Compressor{}
	sn := snappy.Compressor{}
	maxBody := 1 << 20
	if c.Thorough() {
		maxBody = 4 << 20
	}
	formats := []format{
		{"lz4-raw", 131071, func(s io.Reader, d *bytes.Buffer) error { return l4.Compress(s, d) }, func(s io.Reader, d *bytes.Buffer) error { return l4.Decompress(s, d) }},
		{"lz4-with-length", maxBody, func(s io.Reader, d *bytes.Buffer) error { return l4.CompressWithLength(s, d) }, func(s io.Reader, d *bytes.Buffer) error { return l4.DecompressWithLength(s, d) }},
		{"snappy-with-length", maxBody, func(s io.Reader, d *bytes.Buffer) error { return sn.CompressWithLength(s, d) }, func(s io.Reader, d *bytes.Buffer) error { return sn.DecompressWithLength(s, d) }},
	}
	var lens []int
	limit := 16384
	if !c.Thorough() {
		limit = 4096
	}
	for n := 0; n <= limit; n++ {
		lens = append(lens, n)
	}
	for n := limit * 3 / 2; n <= 4<<20; n = n*3/2 + 1 {
		lens = append(lens, n, n-1)
	}
	lens = append(lens, 65535, 65536, 131070, 131071, 131072, 1<<20, 1<<20+1)
	var evals, ok int64
	var maxRatio float64
	type job struct {
		n     int
		class string
	}
	var jobs []job
	for _, n := range lens {
		for _, cl := range gen.PayloadClasses {
			jobs = append(jobs, job{n, cl})
		}
	}
	ratios := make([]float64, len(jobs))
	vlib.ParFor(len(jobs), func(i int) {
		j := jobs[i]
		in := gen.Payload(j.n, j.class)
		for _, f := range formats {
			if j.n > f.max {
				continue
			}
			atomic.AddInt64(&evals, 1)
			keys := map[string]string{"format": f.name}
			var first []byte
			bad := false
			for _, ck := range srcKinds {
				comp := &bytes.Buffer{}
				var err error
				keys["source"] = ck.name
				if pv, site := vlib.Catch(func() { err = f.comp(ck.mk(in), comp) }); pv != nil {
					keys["kind"], keys["site"] = "compress-panic", site
					c.Violation(keys, fmt.Sprintf("%s: compressing %d bytes (%s) from a %s panics: %v", f.name, j.n, j.class, ck.name, pv), j)
					bad = true
					break
				}
				if err != nil {
					keys["kind"] = "compress-error"
					c.Violation(keys, fmt.Sprintf("%s: compressing %d bytes (%s) from a %s fails: %v", f.name, j.n, j.class, ck.name, err), j)
					bad = true
					break
				}
				if comp.Len() > 0 {
					if r := float64(j.n) / float64(comp.Len()); r > ratios[i] {
						ratios[i] = r
					}
				}
				compressed := append([]byte{}, comp.Bytes()...)
				if first == nil {
					first = compressed
				}
				for _, dk := range srcKinds {
					if ck.name != "buffer" && dk.name != "buffer" {
						continue // every source kind on each side, not the full product
					}
					out := &bytes.Buffer{}
					keys["source"] = ck.name + ">" + dk.name
					if pv, site := vlib.Catch(func() { err = f.decomp(dk.mk(compressed), out) }); pv != nil {
						keys["kind"], keys["site"] = "decompress-panic", site
						c.Violation(keys, fmt.Sprintf("%s: decompressing its own output for %d bytes (%s) from a %s panics: %v", f.name, j.n, j.class, dk.name, pv), j)
						bad = true
						break
					}
					if cause := lz4cause(f.name, in, compressed); cause != "" && (err != nil || !bytes.Equal(out.Bytes(), in)) {
						c.Violation(map[string]string{"kind": "lz4-corrupt-block", "cause": cause}, fmt.Sprintf("%s: the block emitted for %d bytes (%s) does not reproduce the input (independent block reader); decompress err=%v", f.name, j.n, j.class, err), j)
						bad = true
						break
					}
					if err != nil {
						keys["kind"], keys["ratio"] = "decompress-error", ratioClass(j.n, comp.Len())
						c.Violation(keys, fmt.Sprintf("%s: %d bytes (%s) compress to %d bytes (ratio %.1f) which then fail to decompress from a %s: %v", f.name, j.n, j.class, comp.Len(), float64(j.n)/float64(comp.Len()), dk.name, err), j)
						bad = true
						break
					}
					if !bytes.Equal(out.Bytes(), in) {
						keys["kind"] = "content-mismatch"
						c.Violation(keys, fmt.Sprintf("%s: %d bytes (%s) do not survive compress (from a %s) / decompress (from a %s): got %d bytes", f.name, j.n, j.class, ck.name, dk.name, out.Len()), j)
						bad = true
						break
					}
					atomic.AddInt64(&evals, 1)
				}
				if bad {
					break
				}
			}
			if bad {
				continue
			}
			atomic.AddInt64(&ok, 1)
		}
	})
	for _, r := range ratios {
		if r > maxRatio {
			maxRatio = r
		}
	}
	// a frame / segment encoded with compression decodes to the same content as one encoded without
	var frames int64
	for _, v := range gen.Versions {
		for _, comp := range fcheck.Compressions(v) {
			if comp == primitive.CompressionNone {
				continue
			}
			for _, n := range []int{0, 1, 100, 300, 5000, 70000} {
				for _, class := range gen.PayloadClasses {
					evals++
					msg := &message.AuthResponse{Token: gen.Payload(n, class)}
					f1 := frame.NewFrame(v, 1, msg)
					f2 := frame.NewFrame(v, 1, gen.Clone(msg).(*message.AuthResponse))
					f2.Header.Flags |= primitive.HeaderFlagCompressed
					codec := frame.NewCodecWithCompression(client.NewBodyCompressor(comp))
					b1, b2 := &bytes.Buffer{}, &bytes.Buffer{}
					if err := codec.EncodeFrame(f1, b1); err != nil {
						continue
					}
					if err := codec.EncodeFrame(f2, b2); err != nil {
						c.Violation(map[string]string{"kind": "frame-compress-error", "compression": string(comp)}, fmt.Sprintf("frame with a %d-byte %s body cannot be encoded with %s: %v", n, class, comp, err), n)
						continue
					}
					w1, w2 := append([]byte{}, b1.Bytes()...), append([]byte{}, b2.Bytes()...)
					d1, e1 := codec.DecodeFrame(b1)
					d2, e2 := codec.DecodeFrame(b2)
					if comp == primitive.CompressionLz4 && (e2 != nil || gen.Equal(d1, d2, map[string]bool{"Header.BodyLength": true, "Header.Flags": true}) != "") {
						plain := append([]byte{}, b1.Bytes()...) // b1 was consumed by DecodeFrame: re-encode
						pb := &bytes.Buffer{}
						_ = codec.EncodeFrame(frame.NewFrame(v, 1, gen.Clone(msg).(*message.AuthResponse)), pb)
						hl := 9
						if v == gen.V2 {
							hl = 8
						}
						body := pb.Bytes()[hl:]
						blk := &bytes.Buffer{}
						_ = l4.Compress(bytes.NewBuffer(append([]byte{}, body...)), blk)
						_ = plain
						if cause := fcheck.LZ4Cause(body, blk.Bytes()); cause != "" {
							c.Violation(map[string]string{"kind": "lz4-corrupt-block", "cause": cause}, fmt.Sprintf("frame with a %d-byte %s body: the LZ4 block of the body does not reproduce it; compressed decode err=%v", n, class, e2), n)
							continue
						}
					}
					if e1 != nil || e2 != nil {
						c.Violation(map[string]string{"kind": "frame-decode-error", "compression": string(comp)}, fmt.Sprintf("frame with a %d-byte %s body: uncompressed decode err=%v, compressed decode err=%v", n, class, e1, e2), n)
						continue
					}
					d2.Header.Flags = d1.Header.Flags
					if d := gen.Equal(d1, d2, fcheck.Ignore); d != "" {
						c.Violation(map[string]string{"kind": "frame-content-mismatch", "compression": string(comp)}, fmt.Sprintf("frame with a %d-byte %s body decodes differently with and without %s: %s", n, class, comp, d), n)
					}
					// the same frames on one stream (a *bytes.Buffer, which the compressors special-case): compressed,
					// plain, compressed - each must decode to the same content and leave the next one intact
					stream := &bytes.Buffer{}
					stream.Write(w2)
					stream.Write(w1)
					stream.Write(w2)
					for k := 0; k < 3; k++ {
						sk, err := codec.DecodeFrame(stream)
						if err != nil {
							c.Violation(map[string]string{"kind": "frame-stream-decode-error", "compression": string(comp)}, fmt.Sprintf("frame %d of a stream (compressed, plain, compressed) with %d-byte %s bodies does not decode with %s: %v", k, n, class, comp, err), n)
							break
						}
						sk.Header.Flags = d1.Header.Flags
						if d := gen.Equal(d1, sk, fcheck.Ignore); d != "" {
							c.Violation(map[string]string{"kind": "frame-stream-content-mismatch", "compression": string(comp)}, fmt.Sprintf("frame %d of a stream (compressed, plain, compressed) with %d-byte %s bodies decodes differently with %s: %s", k, n, class, comp, d), n)
							break
						}
					}
					if stream.Len() != 0 {
						c.Violation(map[string]string{"kind": "frame-stream-leftover", "compression": string(comp)}, fmt.Sprintf("%d bytes left on a stream of three frames with %d-byte %s bodies (%s)", stream.Len(), n, class, comp), n)
					}
					frames++
				}
			}
		}
	}
	plain, lzs := segment.NewCodec(), segment.NewCodecWithCompression(l4)
	for _, n := range []int{0, 1, 9, 300, 5000, 131071} {
		for _, class := range gen.PayloadClasses {
			evals++
			p := gen.Payload(n, class)
			var got [2][]byte
			for k, codec := range []segment.Codec{plain, lzs} {
				buf := &bytes.Buffer{}
				if err := codec.EncodeSegment(&segment.Segment{Header: &segment.Header{IsSelfContained: true}, Payload: &segment.Payload{UncompressedData: append([]byte{}, p...)}}, buf); err != nil {
					c.Violation(map[string]string{"kind": "segment-encode-error"}, fmt.Sprintf("segment of %d bytes (%s): %v", n, class, err), n)
					continue
				}
				s, err := codec.DecodeSegment(buf)
				if k == 1 && (err != nil || !bytes.Equal(s.Payload.UncompressedData, p)) {
					blk := &bytes.Buffer{}
					_ = l4.Compress(bytes.NewBuffer(append([]byte{}, p...)), blk)
					if cause := fcheck.LZ4Cause(p, blk.Bytes()); cause != "" {
						c.Violation(map[string]string{"kind": "lz4-corrupt-block", "cause": cause}, fmt.Sprintf("segment of %d bytes (%s): the block emitted by the compressor does not reproduce the payload; decode err=%v", n, class, err), n)
						continue
					}
				}
				if err != nil {
					c.Violation(map[string]string{"kind": "segment-decode-error", "lz4": fmt.Sprint(k == 1)}, fmt.Sprintf("segment of %d bytes (%s), lz4=%v: %v", n, class, k == 1, err), n)
					continue
				}
				got[k] = s.Payload.UncompressedData
			}
			if got[0] != nil && got[1] != nil && !bytes.Equal(got[0], got[1]) {
				c.Violation(map[string]string{"kind": "segment-content-mismatch"}, fmt.Sprintf("segment of %d bytes (%s) decodes differently with and without LZ4", n, class), n)
			}
		}
	}
	c.Sample(map[string]interface{}{"len": 300, "class": "p1", "formats": []string{"lz4-raw", "lz4-with-length", "snappy-with-length"}})
	c.Set("states", int64(len(jobs)))
	c.Set("transitions", evals)
	c.Set("traces_validated_against_impl", ok+frames)
	c.Set("input_lengths", len(lens))
	c.Set("content_classes", gen.PayloadClasses)
	c.Set("max_compression_ratio_seen", maxRatio)
	c.Set("max_body_bytes", maxBody)
	c.Set("rule", "input length (every length up to the limit, then x1.5 steps with n-1 neighbours, plus 2^16/2^17/2^20 boundaries) x 12 content classes (ratios <1 .. ~250) x {LZ4 raw, LZ4 with length, Snappy with length}; plus frames and segments encoded with and without compression")
	c.Finish()
}

func ratioClass(n, comp int) string {
	r := float64(n) / float64(comp)
	switch {
	case r > 8:
		return ">8"
	case r > 4:
		return "4-8"
	}
	return "<=4"
}
