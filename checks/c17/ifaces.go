package main

import (
	"reflect"

	"github.com/datastax/go-cassandra-native-protocol/datatype"
	"github.com/datastax/go-cassandra-native-protocol/message"
)

func candidateIfaces() []reflect.Type {
	return []reflect.Type{
		reflect.TypeOf((*message.Message)(nil)).Elem(),
		reflect.TypeOf((*datatype.DataType)(nil)).Elem(),
		reflect.TypeOf((*message.Error)(nil)).Elem(),
		reflect.TypeOf((*message.Result)(nil)).Elem(),
	}
}
