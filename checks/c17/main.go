// C17 — deep copies are equal to and independent of their originals.
// E1: every type with a DeepCopy method (registry generated from the current sources) x population
// shapes (every nil-able location in {nil, empty, populated}, at most d away from "populated") x
// every mutable location reachable from the copy.
package main

import (
	"fmt"
	"reflect"
	"runtime"
	"strings"
	"sync/atomic"

	"verif/gen"
	"verif/vlib"
)

type entry struct {
	Name       string
	New        func() interface{}
	Copy       func(x interface{}) interface{}
	CopyIface  func(x interface{}) interface{}
	IsMessage  bool
	IsDataType bool
}

// ---- population -------------------------------------------------------------------------------

// shape decides, per nil-able location (numbered in walk order), whether it is nil (0), empty (1)
// or populated (2).
type shape struct {
	def int         // default for all locations
	dev map[int]int // deviations
	n   int         // counter while populating
	// zero: scalars, strings and arrays keep their zero value (an all-zero UUID, 0, ""): shortcuts
	// for "placeholder" values are a realistic place for a shared singleton
	zero bool
}

func (s *shape) next() int {
	i := s.n
	s.n++
	if v, ok := s.dev[i]; ok {
		return v
	}
	return s.def
}

type populator struct {
	sh      *shape
	seq     byte
	ifaces  map[reflect.Type][]func() reflect.Value
	variant int
	depth   int
}

func (p *populator) b() byte { p.seq++; return p.seq }

func (p *populator) fill(v reflect.Value) {
	p.depth++
	defer func() { p.depth-- }()
	switch v.Kind() {
	case reflect.Ptr:
		switch p.sh.next() {
		case 0:
			return
		default:
			if p.depth > 8 {
				return
			}
			n := reflect.New(v.Type().Elem())
			p.fill(n.Elem())
			v.Set(n)
		}
	case reflect.Interface:
		impls := p.ifaces[v.Type()]
		if len(impls) == 0 || p.sh.next() == 0 || p.depth > 6 {
			return
		}
		iv := impls[(p.variant+int(p.seq))%len(impls)]()
		p.fill(iv.Elem())
		v.Set(iv)
	case reflect.Struct:
		for i := 0; i < v.NumField(); i++ {
			if v.Field(i).CanSet() {
				p.fill(v.Field(i))
			}
		}
	case reflect.Slice:
		switch p.sh.next() {
		case 0:
		case 1:
			v.Set(reflect.MakeSlice(v.Type(), 0, 0))
		default:
			n := 2
			if p.depth > 5 {
				n = 1
			}
			s := reflect.MakeSlice(v.Type(), n, n+1) // spare capacity: appends to the copy must not leak either
			for i := 0; i < n; i++ {
				p.fill(s.Index(i))
			}
			v.Set(s)
		}
	case reflect.Array:
		for i := 0; i < v.Len(); i++ {
			p.fill(v.Index(i))
		}
	case reflect.Map:
		switch p.sh.next() {
		case 0:
		case 1:
			v.Set(reflect.MakeMap(v.Type()))
		default:
			m := reflect.MakeMap(v.Type())
			for i := 0; i < 2; i++ {
				k := reflect.New(v.Type().Key()).Elem()
				p.fill(k)
				e := reflect.New(v.Type().Elem()).Elem()
				p.fill(e)
				m.SetMapIndex(k, e)
			}
			v.Set(m)
		}
	case reflect.String, reflect.Bool, reflect.Int, reflect.Int8, reflect.Int16, reflect.Int32, reflect.Int64, reflect.Uint, reflect.Uint8, reflect.Uint16, reflect.Uint32, reflect.Uint64:
		if p.sh.zero {
			p.b()
			return
		}
		p.fillScalar(v)
	}
}

func (p *populator) fillScalar(v reflect.Value) {
	switch v.Kind() {
	case reflect.String:
		v.SetString(fmt.Sprintf("s%d", p.b()))
	case reflect.Bool:
		v.SetBool(p.b()%2 == 0)
	case reflect.Int, reflect.Int8, reflect.Int16, reflect.Int32, reflect.Int64:
		v.SetInt(int64(p.b()%100) + 1)
	case reflect.Uint, reflect.Uint8, reflect.Uint16, reflect.Uint32, reflect.Uint64:
		v.SetUint(uint64(p.b()%100) + 1)
	}
}

// ---- walking ----------------------------------------------------------------------------------

// location is one mutable place reachable from a value.
type location struct {
	path   string
	mutate func()
}

// locations lists every mutable location reachable from v (addressable root).
func locations(v reflect.Value, path string, out *[]location, depth int) {
	if depth > 12 {
		return
	}
	switch v.Kind() {
	case reflect.Ptr, reflect.Interface:
		if v.IsNil() {
			return
		}
		locations(v.Elem(), path, out, depth+1)
	case reflect.Struct:
		for i := 0; i < v.NumField(); i++ {
			f := v.Field(i)
			if !f.CanSet() && f.Kind() != reflect.Ptr && f.Kind() != reflect.Slice && f.Kind() != reflect.Map && f.Kind() != reflect.Interface {
				continue
			}
			locations(f, path+"."+v.Type().Field(i).Name, out, depth+1)
		}
	case reflect.Slice:
		if v.Len() < v.Cap() {
			vv := v
			*out = append(*out, location{path + "[cap]", func() {
				ext := vv.Slice(0, vv.Len()+1)
				scramble(ext.Index(vv.Len()))
			}})
		}
		for i := 0; i < v.Len(); i++ {
			locations(v.Index(i), fmt.Sprintf("%s[%d]", path, i), out, depth+1)
		}
	case reflect.Array:
		for i := 0; i < v.Len(); i++ {
			locations(v.Index(i), fmt.Sprintf("%s[%d]", path, i), out, depth+1)
		}
	case reflect.Map:
		if v.IsNil() {
			return
		}
		vv := v
		*out = append(*out, location{path + "[+key]", func() {
			k := reflect.New(vv.Type().Key()).Elem()
			scramble(k)
			vv.SetMapIndex(k, reflect.Zero(vv.Type().Elem()))
		}})
		for _, k := range v.MapKeys() {
			k := k
			*out = append(*out, location{fmt.Sprintf("%s[-%v]", path, k), func() { vv.SetMapIndex(k, reflect.Value{}) }})
			e := v.MapIndex(k)
			// map elements are not addressable: descend through pointers / slices they hold
			switch e.Kind() {
			case reflect.Slice, reflect.Ptr, reflect.Map, reflect.Interface:
				locations(e, fmt.Sprintf("%s[%v]", path, k), out, depth+1)
			}
		}
	default:
		if v.CanSet() {
			vv := v
			*out = append(*out, location{path, func() { scramble(vv) }})
		}
	}
}

func scramble(v reflect.Value) {
	switch v.Kind() {
	case reflect.String:
		v.SetString(v.String() + "~mutated")
	case reflect.Bool:
		v.SetBool(!v.Bool())
	case reflect.Int, reflect.Int8, reflect.Int16, reflect.Int32, reflect.Int64:
		v.SetInt(v.Int() ^ 0x55)
	case reflect.Uint, reflect.Uint8, reflect.Uint16, reflect.Uint32, reflect.Uint64:
		v.SetUint(v.Uint() ^ 0x55)
	}
}

// addrs collects the identities of all shareable memory reachable from v.
func addrs(v reflect.Value, out map[uintptr]string, path string, depth int) {
	if depth > 12 {
		return
	}
	switch v.Kind() {
	case reflect.Ptr:
		if v.IsNil() {
			return
		}
		if v.Elem().Type().Size() > 0 {
			out[v.Pointer()] = path
		}
		addrs(v.Elem(), out, path, depth+1)
	case reflect.Interface:
		if !v.IsNil() {
			addrs(v.Elem(), out, path, depth+1)
		}
	case reflect.Struct:
		for i := 0; i < v.NumField(); i++ {
			addrs(v.Field(i), out, path+"."+v.Type().Field(i).Name, depth+1)
		}
	case reflect.Slice:
		if v.IsNil() || v.Cap() == 0 {
			return
		}
		out[v.Pointer()] = path
		for i := 0; i < v.Len(); i++ {
			addrs(v.Index(i), out, fmt.Sprintf("%s[%d]", path, i), depth+1)
		}
	case reflect.Array:
		for i := 0; i < v.Len(); i++ {
			addrs(v.Index(i), out, fmt.Sprintf("%s[%d]", path, i), depth+1)
		}
	case reflect.Map:
		if v.IsNil() {
			return
		}
		out[v.Pointer()] = path
		for _, k := range v.MapKeys() {
			addrs(v.MapIndex(k), out, fmt.Sprintf("%s[%v]", path, k), depth+1)
		}
	}
}

func dump(x interface{}) string { return deep(reflect.ValueOf(x), 0) }

// deep renders the full reachable structure (fmt does not follow pointers below the top level).
func deep(v reflect.Value, d int) string {
	if d > 14 {
		return "…"
	}
	switch v.Kind() {
	case reflect.Ptr, reflect.Interface:
		if v.IsNil() {
			return "nil"
		}
		return "&" + deep(v.Elem(), d+1)
	case reflect.Struct:
		var b strings.Builder
		b.WriteString(v.Type().Name() + "{")
		for i := 0; i < v.NumField(); i++ {
			b.WriteString(v.Type().Field(i).Name + ":" + deep(v.Field(i), d+1) + ",")
		}
		return b.String() + "}"
	case reflect.Slice:
		if v.IsNil() {
			return "nil[]"
		}
		fallthrough
	case reflect.Array:
		var b strings.Builder
		b.WriteString("[")
		for i := 0; i < v.Len(); i++ {
			b.WriteString(deep(v.Index(i), d+1) + ",")
		}
		return b.String() + "]"
	case reflect.Map:
		if v.IsNil() {
			return "nilmap"
		}
		keys := v.MapKeys()
		strs := make([]string, len(keys))
		for i, k := range keys {
			strs[i] = fmt.Sprintf("%v=%s", k, deep(v.MapIndex(k), d+1))
		}
		sortStrings(strs)
		return "map{" + strings.Join(strs, ",") + "}"
	case reflect.String:
		return fmt.Sprintf("%q", v.String())
	case reflect.Bool:
		return fmt.Sprint(v.Bool())
	case reflect.Int, reflect.Int8, reflect.Int16, reflect.Int32, reflect.Int64:
		return fmt.Sprint(v.Int())
	case reflect.Uint, reflect.Uint8, reflect.Uint16, reflect.Uint32, reflect.Uint64:
		return fmt.Sprint(v.Uint())
	}
	return "?"
}

func sortStrings(s []string) {
	for i := 1; i < len(s); i++ {
		for j := i; j > 0 && s[j] < s[j-1]; j-- {
			s[j], s[j-1] = s[j-1], s[j]
		}
	}
}

func main() {
	c := vlib.New("C17", "model_checking")
	if len(registry) < 60 {
		c.Broken("registry has only %d types", len(registry))
	}
	// implementations of the interface types, taken from the registry
	ifaces := map[reflect.Type][]func() reflect.Value{}
	var ifaceTypes []reflect.Type
	for _, e := range registry {
		e := e
		if e.CopyIface == nil {
			continue
		}
		pt := reflect.TypeOf(e.New())
		for _, it := range candidateIfaces() {
			if pt.Implements(it) {
				ifaces[it] = append(ifaces[it], func() reflect.Value { return reflect.ValueOf(e.New()) })
			}
		}
	}
	for it := range ifaces {
		ifaceTypes = append(ifaceTypes, it)
	}
	maxDev := 2
	if c.Thorough() {
		maxDev = 3
	}
	var evals, shapes, locs int64
	var typeCount int64
	vlib.ParFor(len(registry), func(ri int) {
		e := registry[ri]
		atomic.AddInt64(&typeCount, 1)
		build := func(sh *shape, variant int) interface{} {
			x := e.New()
			p := &populator{sh: sh, ifaces: ifaces, variant: variant}
			p.fill(reflect.ValueOf(x).Elem())
			return x
		}
		// number of nil-able locations in the populated shape
		probe := &shape{def: 2}
		build(probe, 0)
		nloc := probe.n
		var shs []*shape
		shs = append(shs, &shape{def: 2}, &shape{def: 0}, &shape{def: 1}, &shape{def: 2, zero: true}, &shape{def: 1, zero: true})
		for i := 0; i < nloc && i < 400; i++ {
			for _, alt := range []int{0, 1} {
				shs = append(shs, &shape{def: 2, dev: map[int]int{i: alt}})
			}
		}
		if maxDev >= 2 {
			for i := 0; i < nloc && i < 40; i++ {
				for j := i + 1; j < nloc && j < 40; j++ {
					for _, a := range []int{0, 1} {
						for _, b := range []int{0, 1} {
							shs = append(shs, &shape{def: 2, dev: map[int]int{i: a, j: b}})
						}
					}
				}
			}
		}
		variants := 1
		if e.Name == "frame.Body" || e.Name == "frame.Frame" || strings.Contains(e.Name, "ColumnMetadata") || strings.Contains(e.Name, "datatype.") {
			variants = 60 // interface-typed fields: rotate through every implementing type
		}
		for _, sh0 := range shs {
			for variant := 0; variant < variants; variant++ {
				fresh := func() interface{} { return build(&shape{def: sh0.def, dev: sh0.dev, zero: sh0.zero}, variant) }
				orig := fresh()
				atomic.AddInt64(&shapes, 1)
				before := dump(orig)
				for pass, copyFn := range []func(interface{}) interface{}{e.Copy, e.CopyIface} {
					if copyFn == nil {
						continue
					}
					var cp interface{}
					if pv, site := vlib.Catch(func() { cp = copyFn(orig) }); pv != nil {
						c.Violation(map[string]string{"kind": "panic", "type": e.Name, "site": site}, fmt.Sprintf("%s: DeepCopy panics: %v (shape %v)", e.Name, pv, sh0.dev), e.Name)
						continue
					}
					atomic.AddInt64(&evals, 1)
					if cp == nil || (reflect.ValueOf(cp).Kind() == reflect.Ptr && reflect.ValueOf(cp).IsNil()) {
						c.Violation(map[string]string{"kind": "nil-copy", "type": e.Name}, e.Name+": DeepCopy of a non-nil value returned nil", e.Name)
						continue
					}
					// equal (exactly: a copy must also preserve nil vs empty)
					if d := dump(cp); !sameDump(d, before, cp, orig) {
						c.Violation(map[string]string{"kind": "not-equal", "type": e.Name, "path": firstDiff(reflect.ValueOf(orig), reflect.ValueOf(cp))}, fmt.Sprintf("%s: copy differs from the original (shape dev %v, pass %d)\n orig %s\n copy %s", e.Name, sh0.dev, pass, clip(before), clip(d)), e.Name)
						continue
					}
					if dump(orig) != before {
						c.Violation(map[string]string{"kind": "copy-modified-original", "type": e.Name}, e.Name+": DeepCopy modified its receiver", e.Name)
					}
					// no shared memory
					ao, ac := map[uintptr]string{}, map[uintptr]string{}
					addrs(reflect.ValueOf(orig), ao, "", 0)
					addrs(reflect.ValueOf(cp), ac, "", 0)
					delete(ao, reflect.ValueOf(orig).Pointer())
					for a, p := range ac {
						if po, shared := ao[a]; shared {
							c.Violation(map[string]string{"kind": "shared-memory", "type": e.Name, "path": stripIdx(p)}, fmt.Sprintf("%s: copy%s and original%s share memory (shape dev %v)", e.Name, p, po, sh0.dev), e.Name)
						}
					}
					// every mutable location of the copy: mutating it must not be visible through the original
					var ls []location
					if reflect.ValueOf(cp).Kind() == reflect.Ptr {
						locations(reflect.ValueOf(cp).Elem(), "", &ls, 0)
					}
					for li := range ls {
						cp2 := copyFn(orig)
						var ls2 []location
						locations(reflect.ValueOf(cp2).Elem(), "", &ls2, 0)
						if li >= len(ls2) {
							break
						}
						ls2[li].mutate()
						atomic.AddInt64(&locs, 1)
						if dump(orig) != before {
							c.Violation(map[string]string{"kind": "mutation-visible", "type": e.Name, "path": stripIdx(ls2[li].path), "direction": "copy->original"}, fmt.Sprintf("%s: changing copy%s is visible through the original (shape dev %v)", e.Name, ls2[li].path, sh0.dev), e.Name)
							orig = fresh()
						}
					}
					// copies must not depend on each other either (a shared placeholder returned for "empty" values):
					// after every location of earlier copies has been changed, a new copy still equals the original
					if cp3 := copyFn(orig); dump(orig) == before {
						if d3 := dump(cp3); !sameDump(d3, before, cp3, orig) {
							c.Violation(map[string]string{"kind": "copy-depends-on-earlier-copy", "type": e.Name, "path": firstDiff(reflect.ValueOf(orig), reflect.ValueOf(cp3))}, fmt.Sprintf("%s: after earlier copies were modified, a new copy differs from the (unchanged) original (shape dev %v zero=%v)\n orig %s\n copy %s", e.Name, sh0.dev, sh0.zero, clip(before), clip(d3)), e.Name)
						}
						ac3 := map[uintptr]string{}
						addrs(reflect.ValueOf(cp3), ac3, "", 0)
						for a, p := range ac3 {
							if p1, shared := ac[a]; shared {
								c.Violation(map[string]string{"kind": "shared-memory-between-copies", "type": e.Name, "path": stripIdx(p)}, fmt.Sprintf("%s: two copies of one original share memory: copy%s and copy%s (shape dev %v zero=%v)", e.Name, p, p1, sh0.dev, sh0.zero), e.Name)
							}
						}
						runtime.KeepAlive(cp) // ac holds bare addresses: the first copy must stay allocated until here, or its memory is reused
					}
					// and the reverse: mutate the original, the copy must stay put
					var lo []location
					locations(reflect.ValueOf(orig).Elem(), "", &lo, 0)
					for li := range lo {
						o2 := fresh()
						cp2 := copyFn(o2)
						snap := dump(cp2)
						var lo2 []location
						locations(reflect.ValueOf(o2).Elem(), "", &lo2, 0)
						if li >= len(lo2) {
							break
						}
						lo2[li].mutate()
						atomic.AddInt64(&locs, 1)
						if dump(cp2) != snap {
							c.Violation(map[string]string{"kind": "mutation-visible", "type": e.Name, "path": stripIdx(lo2[li].path), "direction": "original->copy"}, fmt.Sprintf("%s: changing original%s is visible through the copy (shape dev %v)", e.Name, lo2[li].path, sh0.dev), e.Name)
						}
					}
				}
			}
		}
	})
	_ = ifaceTypes
	_ = gen.Versions
	c.Sample(map[string]interface{}{"type": "message.Query", "shape": "location 3 = nil, others populated", "mutated": ".Options.PositionalValues[0].Contents[1]"})
	c.Set("states", shapes)
	c.Set("transitions", locs+evals)
	c.Set("traces_validated_against_impl", evals)
	c.Set("types_with_deep_copy", typeCount)
	c.Set("population_shapes", shapes)
	c.Set("mutated_locations", locs)
	c.Set("bound", map[string]interface{}{"locations_away_from_populated": maxDev})
	c.Set("rule", "types discovered from the current source; shapes = all-populated, all-nil, all-empty and every nil-able location in {nil, empty} with at most d deviations; for each shape every mutable location reachable from the copy (and from the original) is changed and the other side compared with a snapshot; address identity of every slice backing array, map and pointer is compared")
	c.Finish()
}

func clip(s string) string {
	if len(s) > 500 {
		return s[:500] + "…"
	}
	return s
}

func stripIdx(p string) string {
	var b strings.Builder
	skip := false
	for _, r := range p {
		switch {
		case r == '[':
			skip = true
			b.WriteString("[]")
		case r == ']':
			skip = false
		case !skip:
			b.WriteRune(r)
		}
	}
	return b.String()
}

// sameDump compares the structural part of two dumps (the %#v prefix contains addresses).
func sameDump(a, b string, x, y interface{}) bool {
	return deep(reflect.ValueOf(x), 0) == deep(reflect.ValueOf(y), 0)
}

func firstDiff(a, b reflect.Value) string {
	d := gen.Equal(a.Interface(), b.Interface(), nil)
	if d == "" {
		return "nil-vs-empty"
	}
	return stripIdx(strings.SplitN(d, ":", 2)[0])
}
