// c18race: the operation bodies of C18 free-running under the race detector (supplement).
package main

import (
	"fmt"
	"os"
	"strconv"
	"sync"

	"verif/c18ops"
)

func main() {
	iters := 300
	if len(os.Args) > 1 {
		iters, _ = strconv.Atoi(os.Args[1])
	}
	mismatches := 0
	var mu sync.Mutex
	for _, sc := range c18ops.Scenarios(true) {
		want := map[string]string{}
		for ti, th := range sc.Threads {
			for _, op := range th {
				want[fmt.Sprintf("%d/%s", ti, op.Name)] = op.Run()
			}
		}
		for it := 0; it < iters; it++ {
			var wg sync.WaitGroup
			for ti, th := range sc.Threads {
				ti, th := ti, th
				wg.Add(1)
				go func() {
					defer wg.Done()
					for _, op := range th {
						if got := op.Run(); got != want[fmt.Sprintf("%d/%s", ti, op.Name)] {
							mu.Lock()
							mismatches++
							mu.Unlock()
						}
					}
				}()
			}
			wg.Wait()
		}
	}
	if mismatches > 0 {
		fmt.Printf("MISMATCH: %d results differ from the sequential run\n", mismatches)
		os.Exit(1)
	}
	fmt.Printf("no race report, no mismatch in %d iterations x %d scenarios\n", iters, len(c18ops.Scenarios(true)))
}
