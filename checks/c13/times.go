package main

import (
	"encoding/binary"
	"fmt"
	"math"
	"math/big"
	"time"

	"github.com/datastax/go-cassandra-native-protocol/datacodec"

	"verif/cql"
	"verif/gen"
	"verif/vlib"
)

// boundary grid of int64 operands: 0, +-1, +-2, +-1000, +-86400, and +-(2^k-1), +-2^k, +-(2^k+1)
// for every k in 1..63, plus the quotients of the int64 limits by 1000 and 86400 and their neighbours.
func grid64() []int64 {
	seen := map[int64]bool{}
	var out []int64
	add := func(v int64) {
		if !seen[v] {
			seen[v] = true
			out = append(out, v)
		}
	}
	for _, v := range []int64{0, 1, -1, 2, -2, 3, 1000, -1000, 86400, -86400, math.MaxInt64, math.MinInt64} {
		add(v)
	}
	for k := uint(1); k <= 62; k++ {
		for _, d := range []int64{-1, 0, 1} {
			add((1 << k) + d)
			add(-(1 << k) + d)
		}
	}
	for _, q := range []int64{1000, 86400, 1000000} {
		for _, d := range []int64{-1, 0, 1} {
			add(math.MaxInt64/q + d)
			add(math.MinInt64/q + d)
		}
	}
	// seconds whose product with 1000 wraps around int64 more than once
	for _, v := range []int64{18446744073709552, 18446744073709551, -18446744073709552, 20000000000000000, -20000000000000000, 36893488147419104} {
		add(v)
	}
	return out
}

func fits64(b *big.Int) bool { return b.IsInt64() }

// exactArithmetic: addExact / multiplyExact / floorDiv / floorMod over the whole grid x grid,
// judged with math/big: the overflow flag is set iff the exact result does not fit, and otherwise
// the result is the exact one.
func exactArithmetic(c *vlib.Check) {
	g := grid64()
	for _, x := range g {
		for _, y := range g {
			bx, by := big.NewInt(x), big.NewInt(y)
			evals++
			sum := new(big.Int).Add(bx, by)
			r, ovf := datacodec.VAddExact(x, y)
			if ovf != !fits64(sum) || (!ovf && r != sum.Int64()) {
				c.Violation(map[string]string{"kind": "silent-change", "site": "addExact"}, fmt.Sprintf("addExact(%d, %d) = (%d, overflow=%v); the exact sum is %v", x, y, r, ovf, sum), []int64{x, y})
			} else {
				exact++
			}
			evals++
			prod := new(big.Int).Mul(bx, by)
			r, ovf = datacodec.VMultiplyExact(x, y)
			if ovf != !fits64(prod) || (!ovf && r != prod.Int64()) {
				c.Violation(map[string]string{"kind": "silent-change", "site": "multiplyExact"}, fmt.Sprintf("multiplyExact(%d, %d) = (%d, overflow=%v); the exact product is %v", x, y, r, ovf, prod), []int64{x, y})
			} else {
				exact++
			}
			if y == 0 || (x == math.MinInt64 && y == -1) {
				continue
			}
			evals++
			q, m := new(big.Int).DivMod(bx, by, new(big.Int)) // Euclidean: m >= 0
			if y < 0 && m.Sign() != 0 {
				// floor division: remainder takes the sign of the divisor
				q.Sub(q, big.NewInt(1))
				m.Add(m, by)
			}
			if fd, fm := datacodec.VFloorDiv(x, y), datacodec.VFloorMod(x, y); fd != q.Int64() || fm != m.Int64() {
				c.Violation(map[string]string{"kind": "silent-change", "site": "floorDiv"}, fmt.Sprintf("floorDiv/floorMod(%d, %d) = (%d, %d); exact floor quotient and modulus are (%v, %v)", x, y, fd, fm, q, m), []int64{x, y})
			} else {
				exact++
			}
		}
	}
}

// timeConversions: time.Time (and *time.Time) sources at seconds from the grid x a few nanosecond
// parts into CQL timestamp and date: the encoded number is the exact floor of the instant in
// milliseconds / days, or the encoding is refused.
func timeConversions(c *vlib.Check) {
	nanos := []int64{0, 1, 999999, 1000000, 192000000, 807000000, 807000001, 999999999}
	for _, s := range grid64() {
		for _, ns := range nanos {
			t := time.Unix(s, ns).UTC()
			if t.Unix() != s || int64(t.Nanosecond()) != ns {
				continue // time.Time itself cannot hold this instant
			}
			total := new(big.Int).Add(new(big.Int).Mul(big.NewInt(s), big.NewInt(1e9)), big.NewInt(ns))
			floorQ := func(d int64) *big.Int {
				q, m := new(big.Int).QuoRem(total, big.NewInt(d), new(big.Int))
				if m.Sign() < 0 {
					q.Sub(q, big.NewInt(1))
				}
				return q
			}
			for _, asPtr := range []bool{false, true} {
				var in interface{} = t
				if asPtr {
					in = &t
				}
				// timestamp: milliseconds since the epoch
				evals++
				want := floorQ(1e6)
				enc, err, pv, site := cql.Encode(datacodec.Timestamp, in, gen.V4)
				keys := map[string]string{"direction": "encode", "type": "timestamp", "rep": "time.Time", "pointer": fmt.Sprint(asPtr)}
				switch {
				case pv != nil:
					keys["kind"], keys["site"] = "panic", site
					c.Violation(keys, fmt.Sprintf("encoding time.Unix(%d, %d) as timestamp panics: %v", s, ns, pv), []int64{s, ns})
				case err != nil:
					refused++
				case len(enc) != 8 || !want.IsInt64() || int64(binary.BigEndian.Uint64(enc)) != want.Int64():
					keys["kind"] = "silent-change"
					c.Violation(keys, fmt.Sprintf("encoding time.Unix(%d, %d) as timestamp yields %x (= %d ms); the instant is %v ms since the epoch: the value changed without an error", s, ns, enc, int64(binary.BigEndian.Uint64(append(make([]byte, 8-min(8, len(enc))), enc...))), want), []int64{s, ns})
				default:
					exact++
				}
				// date: days since the epoch, offset by 2^31
				evals++
				wantD := floorQ(86400 * 1e9)
				enc, err, pv, site = cql.Encode(datacodec.Date, in, gen.V4)
				keys = map[string]string{"direction": "encode", "type": "date", "rep": "time.Time", "pointer": fmt.Sprint(asPtr)}
				switch {
				case pv != nil:
					keys["kind"], keys["site"] = "panic", site
					c.Violation(keys, fmt.Sprintf("encoding time.Unix(%d, %d) as date panics: %v", s, ns, pv), []int64{s, ns})
				case err != nil:
					refused++
				case len(enc) != 4 || !wantD.IsInt64() || int64(binary.BigEndian.Uint32(enc))-(1<<31) != wantD.Int64():
					keys["kind"] = "silent-change"
					c.Violation(keys, fmt.Sprintf("encoding time.Unix(%d, %d) as date yields %x; the instant is day %v since the epoch: the value changed without an error", s, ns, enc, wantD), []int64{s, ns})
				default:
					exact++
				}
			}
		}
	}
}
