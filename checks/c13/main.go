// C13 — numeric conversions never lose information silently.
// E1: the complete grid (numeric CQL type x Go numeric representation x direction) over boundary
// values judged with arbitrary-precision arithmetic: a conversion either fails or is exact.
package main

import (
	"encoding/binary"
	"fmt"
	"math"
	"math/big"
	"reflect"

	"github.com/datastax/go-cassandra-native-protocol/datacodec"
	"github.com/datastax/go-cassandra-native-protocol/datatype"
	"github.com/datastax/go-cassandra-native-protocol/primitive"

	"verif/cql"
	"verif/gen"
	"verif/vlib"
)

var evals, exact, refused int64

// wireValue interprets bytes of an integer-like CQL type according to the specification.
func wireValue(dt datatype.DataType, b []byte) (*big.Int, bool) {
	switch dt.Code() {
	case primitive.DataTypeCodeTinyint:
		if len(b) != 1 {
			return nil, false
		}
		return big.NewInt(int64(int8(b[0]))), true
	case primitive.DataTypeCodeSmallint:
		if len(b) != 2 {
			return nil, false
		}
		return big.NewInt(int64(int16(binary.BigEndian.Uint16(b)))), true
	case primitive.DataTypeCodeInt:
		if len(b) != 4 {
			return nil, false
		}
		return big.NewInt(int64(int32(binary.BigEndian.Uint32(b)))), true
	case primitive.DataTypeCodeDate:
		if len(b) != 4 {
			return nil, false
		}
		return big.NewInt(int64(binary.BigEndian.Uint32(b)) - (1 << 31)), true
	case primitive.DataTypeCodeBigint, primitive.DataTypeCodeCounter, primitive.DataTypeCodeTime, primitive.DataTypeCodeTimestamp:
		if len(b) != 8 {
			return nil, false
		}
		return big.NewInt(int64(binary.BigEndian.Uint64(b))), true
	case primitive.DataTypeCodeVarint:
		if len(b) == 0 {
			return nil, false
		}
		return cql.ParseVarint(b), true
	}
	return nil, false
}

func main() {
	c := vlib.New("C13", "model_checking")
	intTypes := []datatype.DataType{datatype.Tinyint, datatype.Smallint, datatype.Int, datatype.Bigint, datatype.Counter, datatype.Varint, datatype.Date, datatype.Time, datatype.Timestamp}
	pairs := 0
	for _, dt := range intTypes {
		codec, _ := datacodec.NewCodec(dt)
		wide := cql.Domain(dt, true)
		for _, r := range cql.Reps(dt) {
			if !r.Numeric {
				continue
			}
			pairs++
			for _, a := range wide {
				if a.Kind != 'I' {
					continue
				}
				// ---- encode: Go number -> CQL ----
				srcs := []reflect.Value{}
				if src, ok := r.Make(a); ok {
					srcs = append(srcs, src)
					if r.Name == "string(base10)" {
						// other base-10 spellings of the same number ("formatted and parsed as base 10 number"):
						// zero-padded to a fixed width (fmt %05d style) and with an explicit plus sign
						abs := new(big.Int).Abs(a.I).String()
						sign := ""
						if a.I.Sign() < 0 {
							sign = "-"
						}
						srcs = append(srcs, reflect.ValueOf(sign+"0"+abs), reflect.ValueOf(sign+"000"+abs))
						if a.I.Sign() >= 0 {
							srcs = append(srcs, reflect.ValueOf("+"+abs))
						}
					}
				}
				for _, src := range srcs {
					for _, asPtr := range []bool{false, true} {
						in := src
						if asPtr {
							if src.Kind() == reflect.Ptr {
								continue
							}
							in = cql.PtrTo(src)
						}
						evals++
						enc, err, pv, site := cql.Encode(codec, in.Interface(), gen.V4)
						keys := map[string]string{"direction": "encode", "type": dt.Code().String(), "rep": r.Name, "pointer": fmt.Sprint(asPtr)}
						if pv != nil {
							keys["kind"], keys["site"] = "panic", site
							c.Violation(keys, fmt.Sprintf("encoding %s (%s) as %v panics: %v", a, in.Type(), dt, pv), a.String())
							continue
						}
						if err != nil {
							refused++
							continue
						}
						got, ok := wireValue(dt, enc)
						if !ok || got.Cmp(a.I) != 0 {
							keys["kind"] = "silent-change"
							c.Violation(keys, fmt.Sprintf("encoding %s value %s as %v yields %x, which denotes %v: the value changed without an error", in.Type(), a.I, dt, enc, got), map[string]interface{}{"type": fmt.Sprint(dt), "go": in.Type().String(), "value": a.I.String()})
							continue
						}
						exact++
					}
				}
				// ---- decode: CQL -> Go number ----
				wire, ok := cql.Serialize(dt, a, gen.V4)
				if !ok {
					continue // the value does not exist in this CQL type
				}
				evals++
				dest := reflect.New(r.T)
				var target interface{} = dest.Interface()
				if r.T.Kind() == reflect.Ptr {
					dest.Elem().Set(reflect.New(r.T.Elem()))
					target = dest.Elem().Interface()
				}
				_, err, pv, site := cql.Decode(codec, wire, target, gen.V4)
				keys := map[string]string{"direction": "decode", "type": dt.Code().String(), "rep": r.Name}
				if pv != nil {
					keys["kind"], keys["site"] = "panic", site
					c.Violation(keys, fmt.Sprintf("decoding %v %s into %s panics: %v", dt, a, r.T, pv), a.String())
					continue
				}
				if err != nil {
					refused++
					continue
				}
				got := r.Read(dest.Elem())
				if got.Kind != 'I' || got.I.Cmp(a.I) != 0 {
					keys["kind"] = "silent-change"
					c.Violation(keys, fmt.Sprintf("decoding %v value %s into %s yields %s: the value changed without an error", dt, a.I, r.T, got), map[string]interface{}{"type": fmt.Sprint(dt), "go": r.T.String(), "value": a.I.String()})
					continue
				}
				exact++
				// the caller owns the number it received (it may go on to use a *big.Int as an accumulator):
				// every later conversion of the grid must be unaffected by that
				cql.Scribble(dest)
			}
		}
	}
	floats(c)
	duration(c)
	intSize32(c)
	exactArithmetic(c)
	timeConversions(c)
	c.Sample(map[string]interface{}{"type": "int", "go": "uint64", "value": "18446744073709551615", "direction": "encode", "expected": "error"})
	c.Sample(map[string]interface{}{"type": "bigint", "go": "int8", "value": "-129", "direction": "decode", "expected": "error"})
	c.Set("states", int64(pairs))
	c.Set("transitions", evals)
	c.Set("traces_validated_against_impl", exact+refused)
	c.Set("type_pairs", pairs)
	c.Set("exact_conversions", exact)
	c.Set("refused_conversions", refused)
	c.Set("rule", "pairs (numeric CQL type, Go numeric representation incl. pointers, *big.Int, base-10 strings, float32/64, *big.Float) x both directions x {0,+-1,+-(2^k-1),+-2^k,+-(2^k+1) for k in 7,8,15,16,31,32,63,64,70}; oracle with math/big: error, or exactly the same mathematical value; intSize=32 branches through the export seam; addExact/multiplyExact/floorDiv/floorMod over a grid of ~400 x ~400 int64 operands (every +-2^k and neighbours, limit quotients, multiply-wrapping operands); time.Time at those seconds x 8 nanosecond parts into timestamp and date")
	c.Finish()
}

func floats(c *vlib.Check) {
	f64s := []float64{0, math.Copysign(0, -1), 1, -1, 0.1, 1 << 24, 1<<24 + 1, 1 << 53, 1<<53 + 1, math.MaxFloat32, math.MaxFloat32 * 2, math.SmallestNonzeroFloat32, math.SmallestNonzeroFloat32 / 2, math.MaxFloat64, math.SmallestNonzeroFloat64, math.Inf(1), math.Inf(-1), 16777217, 3.4028235677973366e38}
	// float64 -> CQL float: exact or error
	for _, f := range f64s {
		for _, asPtr := range []bool{false, true} {
			evals++
			var in interface{} = f
			if asPtr {
				in = &f
			}
			enc, err, pv, site := cql.Encode(datacodec.Float, in, gen.V4)
			if pv != nil {
				c.Violation(map[string]string{"kind": "panic", "site": site, "type": "float"}, fmt.Sprintf("encoding float64 %v as float panics: %v", f, pv), f)
				continue
			}
			if err != nil {
				refused++
				continue
			}
			got := math.Float32frombits(binary.BigEndian.Uint32(enc))
			if float64(got) != f {
				c.Violation(map[string]string{"kind": "silent-change", "direction": "encode", "type": "float", "rep": "float64"}, fmt.Sprintf("encoding float64 %v as CQL float yields %v without an error", f, got), f)
				continue
			}
			exact++
		}
		// CQL double -> float32 destination: exact or error
		evals++
		wire := make([]byte, 8)
		binary.BigEndian.PutUint64(wire, math.Float64bits(f))
		var d32 float32
		_, err, pv, site := cql.Decode(datacodec.Double, wire, &d32, gen.V4)
		if pv != nil {
			c.Violation(map[string]string{"kind": "panic", "site": site, "type": "double"}, fmt.Sprintf("decoding double %v into *float32 panics: %v", f, pv), f)
		} else if err != nil {
			refused++
		} else if float64(d32) != f {
			c.Violation(map[string]string{"kind": "silent-change", "direction": "decode", "type": "double", "rep": "float32"}, fmt.Sprintf("decoding CQL double %v into float32 yields %v without an error", f, d32), f)
		} else {
			exact++
		}
		// *big.Float source -> double, and double -> *big.Float
		evals++
		bf := new(big.Float).SetFloat64(f)
		if !math.IsInf(f, 0) {
			enc, err, pv, _ := cql.Encode(datacodec.Double, bf, gen.V4)
			if pv == nil && err == nil {
				if got := math.Float64frombits(binary.BigEndian.Uint64(enc)); got != f {
					c.Violation(map[string]string{"kind": "silent-change", "direction": "encode", "type": "double", "rep": "*big.Float"}, fmt.Sprintf("encoding *big.Float %v as double yields %v", f, got), f)
				} else {
					exact++
				}
			} else {
				refused++
			}
		}
	}
	// a *big.Float that no float64 can hold exactly must be refused
	prec := new(big.Float).SetPrec(200)
	prec.SetString("0.1000000000000000055511151231257827021181583404541015625001")
	huge := new(big.Float).SetPrec(200).SetMantExp(big.NewFloat(1), 2000)
	for _, bf := range []*big.Float{prec, huge} {
		evals++
		enc, err, pv, _ := cql.Encode(datacodec.Double, bf, gen.V4)
		if pv == nil && err == nil {
			got := math.Float64frombits(binary.BigEndian.Uint64(enc))
			if new(big.Float).SetPrec(200).SetFloat64(got).Cmp(bf) != 0 {
				c.Violation(map[string]string{"kind": "silent-change", "direction": "encode", "type": "double", "rep": "*big.Float"}, fmt.Sprintf("encoding *big.Float %v as double yields %v without an error", bf.Text('g', 40), got), bf.Text('g', 40))
			}
		} else {
			refused++
		}
	}
}

// duration components: months and days are 32-bit on the Go side; the wire carries vints
func duration(c *vlib.Check) {
	vals := []int64{0, 1, -1, math.MaxInt32, math.MinInt32, math.MaxInt32 + 1, math.MinInt32 - 1, 1 << 32, -(1 << 32), 1<<32 + 5, math.MaxInt64, math.MinInt64}
	for _, mo := range vals {
		for _, da := range vals {
			for _, ns := range []int64{0, -1, math.MaxInt64, math.MinInt64} {
				evals++
				a := cql.AV{Kind: 'U', Mo: mo, Da: da, Ns: ns}
				wire, _ := cql.Serialize(datatype.Duration, a, gen.V5)
				var d datacodec.CqlDuration
				_, err, pv, site := cql.Decode(datacodec.Duration, wire, &d, gen.V5)
				if pv != nil {
					c.Violation(map[string]string{"kind": "panic", "site": site, "type": "duration"}, fmt.Sprintf("decoding duration %s panics: %v", a, pv), a.String())
					continue
				}
				if err != nil {
					refused++
					continue
				}
				if int64(d.Months) != mo || int64(d.Days) != da || int64(d.Nanos) != ns {
					comp := "months"
					if int64(d.Months) == mo {
						comp = "days"
					}
					c.Violation(map[string]string{"kind": "silent-change", "direction": "decode", "type": "duration", "component": comp}, fmt.Sprintf("decoding duration (months=%d, days=%d, nanos=%d) yields (%d, %d, %d) without an error", mo, da, ns, d.Months, d.Days, int64(d.Nanos)), a.String())
					continue
				}
				exact++
			}
		}
	}
}

func intSize32(c *vlib.Check) {
	for _, k := range []uint{31, 32, 63} {
		for _, d := range []int64{-1, 0, 1} {
			for _, sign := range []int64{1, -1} {
				x := new(big.Int).Lsh(big.NewInt(1), k)
				x.Add(x, big.NewInt(d))
				if sign < 0 {
					x.Neg(x)
				}
				fits32 := x.IsInt64() && x.Int64() >= math.MinInt32 && x.Int64() <= math.MaxInt32
				fitsU32 := x.Sign() >= 0 && x.IsUint64() && x.Uint64() <= math.MaxUint32
				evals += 4
				if x.IsInt64() {
					if got, err := datacodec.VInt64ToInt(x.Int64(), 32); (err == nil) != fits32 || (err == nil && int64(got) != x.Int64()) {
						c.Violation(map[string]string{"kind": "intsize32", "helper": "int64ToInt"}, fmt.Sprintf("int64ToInt(%v, 32) = %v, %v", x, got, err), x.String())
					}
					if got, err := datacodec.VInt64ToUint(x.Int64(), 32); (err == nil) != fitsU32 || (err == nil && uint64(got) != x.Uint64()) {
						c.Violation(map[string]string{"kind": "intsize32", "helper": "int64ToUint"}, fmt.Sprintf("int64ToUint(%v, 32) = %v, %v", x, got, err), x.String())
					}
				}
				if got, err := datacodec.VBigIntToInt(x, 32); (err == nil) != fits32 || (err == nil && int64(got) != x.Int64()) {
					c.Violation(map[string]string{"kind": "intsize32", "helper": "bigIntToInt"}, fmt.Sprintf("bigIntToInt(%v, 32) = %v, %v", x, got, err), x.String())
				}
				if got, err := datacodec.VBigIntToUint(x, 32); (err == nil) != fitsU32 || (err == nil && uint64(got) != x.Uint64()) {
					c.Violation(map[string]string{"kind": "intsize32", "helper": "bigIntToUint"}, fmt.Sprintf("bigIntToUint(%v, 32) = %v, %v", x, got, err), x.String())
				}
			}
		}
	}
}
