// C02 — emitted bytes conform to the native-protocol specification of the version.
package main

import (
	"bytes"
	"encoding/hex"
	"fmt"
	"io"
	"sync/atomic"
	"testing/iotest"

	"github.com/datastax/go-cassandra-native-protocol/frame"
	"github.com/datastax/go-cassandra-native-protocol/primitive"

	"verif/fcheck"
	"verif/gen"
	"verif/ref/refwire"
	"verif/vlib"
)

func member(set [][]byte, b []byte) bool {
	for _, s := range set {
		if bytes.Equal(s, b) {
			return true
		}
	}
	return false
}

func firstDiff(a, b []byte) int {
	for i := 0; i < len(a) && i < len(b); i++ {
		if a[i] != b[i] {
			return i
		}
	}
	if len(a) != len(b) {
		if len(a) < len(b) {
			return len(a)
		}
		return len(b)
	}
	return -1
}

func hx(b []byte) string {
	if len(b) > 160 {
		return hex.EncodeToString(b[:160]) + "…"
	}
	return hex.EncodeToString(b)
}

func main() {
	c := vlib.New("C02", "model_checking")
	o := fcheck.Opts(c)
	codec := frame.NewCodec()
	var evals, refDecoded, encCompared int64
	n := fcheck.ForEach(c, o, func(cs gen.Case) {
		f := gen.Clone(cs.Frame).(*frame.Frame)
		orig := gen.Clone(cs.Frame).(*frame.Frame)
		atomic.AddInt64(&evals, 1)
		buf := &bytes.Buffer{}
		if err := codec.EncodeFrame(f, buf); err != nil {
			return // C01
		}
		got := buf.Bytes()
		both := len(orig.Body.CustomPayload) > 0 && len(orig.Body.Warnings) > 0
		kind := fcheck.Kind(cs.Name)
		var want [][]byte
		if pv, _ := vlib.Catch(func() { want = refwire.EncodeAll(orig, refwire.Opt{SpecPrefixOrder: true}) }); pv != nil {
			c.Broken("reference encoder failed on %s: %v", cs.Name, pv)
		}
		atomic.AddInt64(&encCompared, 1)
		if !member(want, got) {
			if both && member(refwire.EncodeAll(orig, refwire.Opt{SpecPrefixOrder: false}), got) {
				c.Violation(map[string]string{"kind": "body-prefix-order", "direction": "encode"}, fmt.Sprintf("%s: with both a custom payload and warnings the library writes the custom payload first; the specifications (v4 section 2.2, v5 section 2.4.1.2) put the warnings first\n got  %s\n spec %s", cs.Name, hx(got), hx(want[0])), cs.Name)
			} else {
				d := firstDiff(got, want[0])
				part := "body"
				if d >= 0 && d < 9 {
					part = "header"
				}
				c.Violation(map[string]string{"kind": "wire-mismatch", "msg": kind, "part": part, "version": orig.Header.Version.String()}, fmt.Sprintf("%s: emitted bytes differ from the specification at offset %d (%d permitted map orders tried)\n got  %s\n spec %s", cs.Name, d, len(want), hx(got), hx(want[0])), map[string]interface{}{"case": cs.Name, "got": hx(got), "spec": hx(want[0])})
			}
		}
		// specification-formatted bytes decode to the message they denote, including the encodings the
		// library itself never produces
		alts := [][]byte{want[0]}
		if alt := refwire.EncodeAll(orig, refwire.Opt{SpecPrefixOrder: true, NoGlobalSpec: true}); !bytes.Equal(alt[0], want[0]) {
			alts = append(alts, alt[0])
		}
		// ... also when the body travels compressed (versions with body compression; STARTUP is never compressed):
		// literal-only LZ4 and Snappy streams written from the format descriptions, which the library's own
		// compressors do not emit. Two such frames back to back on one *bytes.Buffer, then one from a reader that
		// returns short reads: each must decode to the frame and leave the next one intact.
		if v := orig.Header.Version; v != gen.V5 && fcheck.Compressible(orig) && atomic.LoadInt64(&evals)%3 == 0 {
			hl := 9
			if v == gen.V2 {
				hl = 8
			}
			for ci, comp := range []func([]byte) []byte{refwire.LZ4Literal, refwire.SnappyLiteral} {
				name := [...]string{"LZ4", "Snappy"}[ci]
				cc := fcheck.Codec([...]primitive.Compression{primitive.CompressionLz4, primitive.CompressionSnappy}[ci])
				cw := refwire.WithCompressedBody(want[0], hl, comp)
				stream := bytes.NewBuffer(append(append([]byte{}, cw...), cw...))
				for k, src := range []io.Reader{stream, stream, iotest.HalfReader(bytes.NewReader(cw))} {
					how := [...]string{"first of two frames on a bytes.Buffer", "second of two frames on a bytes.Buffer", "a reader returning short reads"}[k]
					var dec *frame.Frame
					var err error
					if pv, site := vlib.Catch(func() { dec, err = cc.DecodeFrame(src) }); pv != nil {
						c.Violation(map[string]string{"kind": "spec-bytes-panic", "site": site, "compression": name}, fmt.Sprintf("%s: DecodeFrame panics on a specification-formatted frame with a %s body (%s): %v", cs.Name, name, how, pv), cs.Name)
						break
					}
					atomic.AddInt64(&refDecoded, 1)
					if err != nil {
						c.Violation(map[string]string{"kind": "spec-bytes(compressed body)-rejected", "compression": name, "source": how}, fmt.Sprintf("%s: specification-formatted frame with a literal-only %s body does not decode (%s): %v", cs.Name, name, how, err), cs.Name)
						break
					}
					dec.Header.Flags = dec.Header.Flags.Remove(primitive.HeaderFlagCompressed)
					if d := gen.Equal(orig, dec, fcheck.Ignore); d != "" {
						c.Violation(map[string]string{"kind": "spec-bytes(compressed body)-misread", "compression": name, "source": how}, fmt.Sprintf("%s: specification-formatted frame with a literal-only %s body (%s) decodes to a different frame: %s", cs.Name, name, how, d), cs.Name)
						break
					}
				}
			}
		}
		altNames := []string{"spec-bytes", "spec-bytes(no global table spec)"}
		if len(alts) == 1 {
			altNames = altNames[:1]
		}
		if alt := refwire.EncodeAll(orig, refwire.Opt{SpecPrefixOrder: true, GlobalFlagWithNoMetadata: true}); !bytes.Equal(alt[0], want[0]) {
			alts = append(alts, alt[0])
			altNames = append(altNames, "spec-bytes(No_metadata with the Global_tables_spec bit)")
		}
		for ai, spec := range alts {
			var dec *frame.Frame
			var err error
			if pv, site := vlib.Catch(func() { dec, err = codec.DecodeFrame(bytes.NewReader(spec)) }); pv != nil {
				c.Violation(map[string]string{"kind": "spec-bytes-panic", "site": site}, fmt.Sprintf("%s: DecodeFrame panics on specification-formatted bytes: %v", cs.Name, pv), cs.Name)
				continue
			}
			keyKind := altNames[ai]
			if err != nil {
				if both {
					c.Violation(map[string]string{"kind": "body-prefix-order", "direction": "decode"}, fmt.Sprintf("%s: specification-formatted bytes (warnings before custom payload) are not decoded: %v", cs.Name, err), cs.Name)
				} else {
					c.Violation(map[string]string{"kind": keyKind + "-rejected", "msg": kind, "version": orig.Header.Version.String()}, fmt.Sprintf("%s: specification-formatted bytes do not decode: %v\n spec %s", cs.Name, err, hx(spec)), cs.Name)
				}
				continue
			}
			if d := gen.Equal(orig, dec, fcheck.Ignore); d != "" {
				if both {
					c.Violation(map[string]string{"kind": "body-prefix-order", "direction": "decode"}, fmt.Sprintf("%s: specification-formatted bytes (warnings before custom payload) decode to a different frame: %s", cs.Name, d), cs.Name)
				} else {
					c.Violation(map[string]string{"kind": keyKind + "-misread", "msg": kind, "diff": fcheck.DiffClass(d)}, fmt.Sprintf("%s: specification-formatted bytes decode to a different frame at %s\n spec %s", cs.Name, d, hx(spec)), cs.Name)
				}
				continue
			}
			atomic.AddInt64(&refDecoded, 1)
		}
	})
	// ---- rejection clause: all 2^16 (version byte, opcode) headers ----
	supported := map[byte]bool{2: true, 3: true, 4: true, 5: true, 0x41: true, 0x42: true}
	reqOps := map[byte]bool{0x01: true, 0x05: true, 0x07: true, 0x09: true, 0x0A: true, 0x0B: true, 0x0D: true, 0x0F: true, 0xFF: true}
	respOps := map[byte]bool{0x00: true, 0x02: true, 0x03: true, 0x06: true, 0x08: true, 0x0C: true, 0x0E: true, 0x10: true}
	raw := frame.NewRawCodec()
	var hdrs int64
	for vb := 0; vb < 256; vb++ {
		for op := 0; op < 256; op++ {
			hdrs++
			ver := byte(vb) & 0x7F
			isResp := vb&0x80 != 0
			var b []byte
			if ver == 2 {
				b = []byte{byte(vb), 0, 1, byte(op), 0, 0, 0, 0}
			} else {
				b = []byte{byte(vb), 0, 0, 1, byte(op), 0, 0, 0, 0}
			}
			mustReject := !supported[ver] || (!reqOps[byte(op)] && !respOps[byte(op)]) || (isResp && reqOps[byte(op)]) || (!isResp && respOps[byte(op)])
			_, e1 := raw.DecodeHeader(bytes.NewReader(b))
			_, e2 := raw.DecodeFrame(bytes.NewReader(b))
			_, e3 := raw.DecodeRawFrame(bytes.NewReader(b))
			keys := map[string]string{"kind": "header-rejection"}
			switch {
			case mustReject && (e1 == nil || e2 == nil || e3 == nil):
				why := "unsupported version"
				if supported[ver] {
					why = "unknown opcode"
					if reqOps[byte(op)] || respOps[byte(op)] {
						why = "opcode does not match the direction bit"
					}
				}
				keys["why"] = why
				c.Violation(keys, fmt.Sprintf("header %x (%s) is accepted: DecodeHeader err=%v, DecodeFrame err=%v, DecodeRawFrame err=%v", b, why, e1, e2, e3), hx(b))
			case !mustReject && (e1 != nil || e3 != nil):
				keys["why"] = "valid header rejected"
				c.Violation(keys, fmt.Sprintf("valid header %x is rejected: DecodeHeader err=%v, DecodeRawFrame err=%v", b, e1, e3), hx(b))
			}
		}
	}
	c.Sample(map[string]interface{}{"case": "ProtocolVersion OSS 4/QUERY", "check": "EncodeFrame bytes must be one of the reference encodings (all map orders); reference bytes must decode to the same frame"})
	c.Set("states", n)
	c.Set("transitions", evals+hdrs)
	c.Set("traces_validated_against_impl", refDecoded)
	c.Set("frames_generated", n)
	c.Set("encodings_compared", encCompared)
	c.Set("reference_encodings_decoded_by_impl", refDecoded)
	c.Set("header_combinations", hdrs)
	c.Set("bound", map[string]interface{}{"field_deviations": o.D, "type_depth": o.TypeDepth})
	c.Set("rule", "every generated version-valid frame (uncompressed): library bytes must be a member of the reference encodings over all permitted map orders; the reference encoding (and the variant without a factored-out global table spec) must decode to the same frame; all 2^16 (version byte, opcode) headers for the rejection clause")
	c.Assumptions = []string{"ref/refwire was written from specs/*.spec; it reads only public struct fields of the frames"}
	_ = primitive.ProtocolVersion2
	c.Finish()
}
