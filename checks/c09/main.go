// C09 — stream ids: unique while in flight, bounded, recycled, refused when exhausted.
// E3: BFS to fixpoint over operation histories of the real in-flight handler against a reference
// model; E2: exhaustive preemption-bounded schedules of multi-threaded handler scenarios.
package main

import (
	"verif/hconn"
	"verif/hmodel"
	"verif/vlib"
)

func main() {
	hmodel.RegisterHandlerLevel()
	ids := hconn.RegisterIds()
	long := hmodel.LongHarnesses()
	if hmodel.Dispatch() {
		return
	}
	c := vlib.New("C09", "model_checking")
	t := &hmodel.Totals{}
	hmodel.RunHandlerLevel(c, "C09", t, "panic", "deadlock", "livelock")
	// long deterministic histories at the limits of N (single schedule)
	for _, name := range long {
		hmodel.RunHarness(c, "C09", t, name, 0, "panic", "deadlock", "livelock", "leak")
	}
	// connection level: the real client connection against a raw peer that records the ids on the wire
	for _, d := range ids {
		if !d.Quick && !c.Thorough() {
			continue
		}
		b := d.QB
		if c.Thorough() {
			b = d.TB
		}
		hmodel.RunArgs(c, "C09", t, d.Name, d.Args, b, "panic", "deadlock", "livelock", "leak", "setup", "peer", "harness")
	}
	hmodel.Finish(c, t, "BFS: a state is the canonical dump of the real handler (in-flight entries with managed/queued/done, free-id FIFO in order, closed flag); every transition is the real operation compared with the reference model, plus a conservation probe (answer everything, then N managed sends) from every reachable state. Explore: a schedule is a vector of scheduler choices (preemption-bounded); outcomes are distinct observation logs. Connection level: the real CqlClientConnection over the in-memory network against a raw peer thread that records the stream ids it sees; every answer permutation of 2 and 3 outstanding requests on every version (delay-bounded schedules), an event and a response for an unknown id interleaved, interleaved continuous pages on DSE, and N+1 senders against a silent peer (exhaustion).")
}
