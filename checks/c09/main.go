// C09 — stream ids: unique while in flight, bounded, recycled, refused when exhausted.
// E3: BFS to fixpoint over operation histories of the real in-flight handler against a reference
// model; E2: exhaustive schedules (preemption-bounded) of multi-threaded handler scenarios and
// (delay-bounded) of whole client connections.
package main

import (
	"fmt"
	"os"

	"verif/engine/bfs"
	"verif/engine/explore"
	"verif/hmodel"
	"verif/vlib"
)

const prop = "C09"

func main() {
	cfgsQuick := []hmodel.BfsCfg{{N: 1, MP: 1, Consume: false}, {N: 2, MP: 1, Consume: false}, {N: 2, MP: 2, Consume: true}}
	cfgsThorough := []hmodel.BfsCfg{{N: 3, MP: 1, Consume: false}, {N: 3, MP: 2, Consume: true}}
	var models []*bfs.Model
	for _, c := range append(cfgsQuick, cfgsThorough...) {
		models = append(models, hmodel.RegisterBfs(c))
	}
	scripts := hmodel.Scripts()
	for _, s := range scripts {
		explore.Register(s.Harness("preempt", 2))
	}
	if explore.IsWorker() {
		explore.WorkerMain()
		return
	}
	if bfs.IsWorker() {
		bfs.WorkerMain()
		return
	}
	if len(os.Args) > 2 && os.Args[1] == "replay" {
		hmodel.ReplayMain(os.Args[2])
		return
	}
	if len(os.Args) > 2 && os.Args[1] == "trace" {
		hmodel.TraceMain(os.Args[2])
		return
	}
	c := vlib.New(prop, "model_checking")
	var states, trans, execs, steps int64
	nm := len(cfgsQuick)
	if c.Thorough() {
		nm = len(models)
	}
	var bfsInfo []map[string]interface{}
	for _, m := range models[:nm] {
		r, err := bfs.Search(m, 0, c.Deadline(), 0)
		if err != nil {
			c.Broken("bfs %s: %v", m.Name, err)
		}
		if !r.Fixpoint {
			c.Cap(fmt.Sprintf("bfs %s stopped at depth %d before the fixpoint", m.Name, r.Depth))
		}
		states += int64(r.States)
		trans += int64(r.Transitions)
		bfsInfo = append(bfsInfo, map[string]interface{}{"model": m.Name, "alphabet": m.NumOps, "states": r.States, "transitions": r.Transitions, "depth": r.Depth, "fixpoint": r.Fixpoint, "states_per_depth": r.PerDepth, "violating_transitions": r.ViolCount, "wall_s": r.WallS})
		for _, s := range r.Samples[:min(2, len(r.Samples))] {
			c.Sample(map[string]interface{}{"bfs_history": s})
		}
		hmodel.ReportBfs(c, r, prop, "panic", "deadlock")
		fmt.Printf("bfs %-32s states=%d transitions=%d depth=%d fixpoint=%v viol=%d %.1fs\n", m.Name, r.States, r.Transitions, r.Depth, r.Fixpoint, r.ViolCount, r.WallS)
	}
	var exInfo []map[string]interface{}
	outcomes := 0
	for _, s := range scripts {
		h := explore.Lookup(s.Name)
		bound := s.QB
		if c.Thorough() {
			bound = s.TB
		}
		h.Bound = bound
		r, err := explore.Explore(h, 0, c.Deadline())
		if err != nil {
			c.Broken("explore %s: %v", s.Name, err)
		}
		if !r.Complete {
			c.Cap(fmt.Sprintf("explore %s truncated by the deadline at bound %d", s.Name, bound))
		}
		execs += r.Stats.Execs
		steps += r.Stats.Steps
		outcomes += len(r.Stats.Outcomes)
		exInfo = append(exInfo, map[string]interface{}{"harness": s.Name, "param": h.Param, "cost_model": r.Cost, "bound": r.Bound, "schedules": r.Stats.Execs, "scheduling_points": r.Stats.Steps, "max_points_per_schedule": r.Stats.MaxSteps, "threads": r.Stats.MaxThreads, "distinct_outcomes": len(r.Stats.Outcomes), "violating_schedules": r.Stats.ViolCount, "wall_s": r.WallS, "complete": r.Complete})
		for _, ch := range r.Stats.Sample {
			c.Sample(map[string]interface{}{"harness": s.Name, "schedule_choices": ch})
			break
		}
		hmodel.ReportExplore(c, r, prop, "panic", "deadlock", "livelock")
		fmt.Printf("explore %-32s bound=%d schedules=%d points=%d outcomes=%d viol=%d %.1fs\n", s.Name, r.Bound, r.Stats.Execs, r.Stats.Steps, len(r.Stats.Outcomes), r.Stats.ViolCount, r.WallS)
	}
	c.Set("states", states+execs)
	c.Set("transitions", trans+steps)
	c.Set("traces_validated_against_impl", trans+execs)
	c.Set("bfs_states", states)
	c.Set("bfs_transitions", trans)
	c.Set("schedules", execs)
	c.Set("scheduling_points", steps)
	c.Set("distinct_outcomes", outcomes)
	c.Set("bfs", bfsInfo)
	c.Set("explore", exInfo)
	c.Set("bound", map[string]interface{}{"preemption_bound": "per harness, see explore[].bound", "bfs": "fixpoint"})
	c.Set("rule", "BFS: a state is the canonical dump of the real handler (in-flight entries with managed/queued/done, free-id FIFO in order, closed flag); every reference-model transition is replayed on the implementation. Explore: a schedule is a vector of scheduler choices; outcomes are distinct observation logs.")
	c.Assumptions = []string{
		"sequentially consistent memory; scheduling points at sync/atomic/channel/context operations only",
		"sync, sync/atomic, context, time, net replaced by the shims of /verif/rt through a build overlay generated from /repo's working tree",
	}
	c.Finish()
}

func min(a, b int) int {
	if a < b {
		return a
	}
	return b
}
