// C05 — header-only and raw-body operations agree with the full codec.
package main

import (
	"bufio"
	"bytes"
	"fmt"
	"io"
	"sync"
	"sync/atomic"
	"testing/iotest"
	"time"

	"github.com/datastax/go-cassandra-native-protocol/frame"
	"github.com/datastax/go-cassandra-native-protocol/message"
	"github.com/datastax/go-cassandra-native-protocol/primitive"

	"verif/fcheck"
	"verif/gen"
	"verif/iso"
	"verif/mutfam"
	"verif/vlib"
)

var sentinel = []byte{0xde, 0xad, 0xbe, 0xef, 0x55}

func headerLen(v gen.V) int {
	if v == gen.V2 {
		return 8
	}
	return 9
}

type nonSeeker struct{ r io.Reader }

func (n nonSeeker) Read(p []byte) (int, error) { return n.r.Read(p) }

// chunked delivers its parts one after the other, never more than the rest of the current part per Read
// (a socket on which each frame arrives in its own packet).
type chunked struct{ parts [][]byte }

func (c *chunked) Read(p []byte) (int, error) {
	for len(c.parts) > 0 && len(c.parts[0]) == 0 {
		c.parts = c.parts[1:]
	}
	if len(c.parts) == 0 {
		return 0, io.EOF
	}
	n := copy(p, c.parts[0])
	c.parts[0] = c.parts[0][n:]
	return n, nil
}

// sources returns fresh readers over b+sentinel with different chunking behaviours. The second result
// drains the source and returns what was left; it then OVERWRITES the memory the source was reading
// from, so that a decoded value that still aliases the source (instead of owning a copy) shows up in
// the comparisons, which all come after it. wantRest is what must be left.
func sources(b []byte) map[string]func() (io.Reader, func() []byte) {
	scribble := func(x []byte) {
		for i := range x {
			x[i] = 0xEE
		}
	}
	mk := func(wrap func(*bytes.Reader) io.Reader) func() (io.Reader, func() []byte) {
		return func() (io.Reader, func() []byte) {
			back := append(append([]byte{}, b...), sentinel...)
			br := bytes.NewReader(back)
			return wrap(br), func() []byte { rest, _ := io.ReadAll(br); scribble(back); return rest }
		}
	}
	return map[string]func() (io.Reader, func() []byte){
		"seekable": mk(func(r *bytes.Reader) io.Reader { return r }),
		"plain":    mk(func(r *bytes.Reader) io.Reader { return nonSeeker{r} }),
		"one-byte": mk(func(r *bytes.Reader) io.Reader { return iotest.OneByteReader(r) }),
		"half":     mk(func(r *bytes.Reader) io.Reader { return iotest.HalfReader(r) }),
		// a *bytes.Buffer that holds more than the frame: compressors special-case this source type
		"buffer": func() (io.Reader, func() []byte) {
			back := append(append([]byte{}, b...), sentinel...)
			bb := bytes.NewBuffer(back)
			return bb, func() []byte { rest := append([]byte{}, bb.Bytes()...); scribble(back); return rest }
		},
		// a *bytes.Buffer that holds exactly the frame (the last frame of a stream): the sentinel is appended
		// to the buffer only after the decode, so every byte of the frame must have been consumed by then
		"buffer-exact": func() (io.Reader, func() []byte) {
			back := append(make([]byte, 0, len(b)+len(sentinel)), b...)
			bb := bytes.NewBuffer(back)
			return bb, func() []byte {
				bb.Write(sentinel)
				rest := append([]byte{}, bb.Bytes()...)
				scribble(back[:cap(back)])
				return rest
			}
		},
		// a *bufio.Reader over a connection that delivers the frame and what follows in separate reads:
		// draining the rest makes bufio refill (and overwrite) its internal buffer
		"bufio": func() (io.Reader, func() []byte) {
			br := bufio.NewReader(&chunked{parts: [][]byte{append([]byte{}, b...), append(append([]byte{}, sentinel...), bytes.Repeat([]byte{0xEE}, 8192)...)}})
			return br, func() []byte {
				rest, _ := io.ReadAll(br)
				if len(rest) >= len(sentinel) && len(rest) == len(sentinel)+8192 {
					return rest[:len(sentinel)]
				}
				return rest
			}
		},
	}
}

type prev struct {
	name string
	raw  *frame.RawFrame
	f    *frame.Frame
	comp primitive.Compression
}

func main() {
	if iso.IsWorker() {
		iso.WorkerMain()
		return
	}
	c := vlib.New("C05", "model_checking")
	o := fcheck.Opts(c)
	o.D-- // every frame goes through 7 paths x 5 sources: one deviation level less than C01 (1 quick, 2 thorough)
	var evals, validated, reenc int64
	var mu sync.Mutex
	lastRaw := map[string]*prev{} // previous conversion per (version, compression): aliasing between successive conversions
	n := fcheck.ForEach(c, o, func(cs gen.Case) {
		v := cs.Frame.Header.Version
		for _, comp := range fcheck.Compressions(v) {
			codec := fcheck.Codec(comp)
			raw := fcheck.RawCodec(comp)
			f := gen.Clone(cs.Frame).(*frame.Frame)
			if comp != primitive.CompressionNone && fcheck.Compressible(f) {
				f.Header.Flags |= primitive.HeaderFlagCompressed
			}
			orig := gen.Clone(f).(*frame.Frame)
			buf := &bytes.Buffer{}
			if err := codec.EncodeFrame(f, buf); err != nil {
				continue
			}
			wire := append([]byte{}, buf.Bytes()...)
			hl := headerLen(v)
			keys := func(kind, path string) map[string]string {
				return map[string]string{"kind": kind, "path": path, "compressed": fmt.Sprint(comp != primitive.CompressionNone && fcheck.Compressible(f))}
			}
			fail := func(kind, path, format string, a ...interface{}) {
				c.Violation(keys(kind, path), fmt.Sprintf("%s (%s): %s", cs.Name, comp, fmt.Sprintf(format, a...)), map[string]interface{}{"case": cs.Name, "compression": comp})
			}
			// a frame that does not round-trip through the plain DecodeFrame is C01's business (it is
			// reported there); the paths are compared only for frames that do
			if pre, err := codec.DecodeFrame(bytes.NewReader(wire)); err != nil || gen.Equal(orig, pre, fcheck.Ignore) != "" {
				continue
			}
			var ref *frame.Frame
			for sname, mk := range sources(wire) {
				atomic.AddInt64(&evals, 1)
				// path 1: DecodeFrame
				r, rest := mk()
				got, err := codec.DecodeFrame(r)
				if err != nil {
					if sname == "seekable" {
						break // C01
					}
					fail("decode-error", "DecodeFrame/"+sname, "decodes from a contiguous source but not from a %s source: %v", sname, err)
					continue
				}
				if x := rest(); !bytes.Equal(x, sentinel) {
					fail("consumption", "DecodeFrame/"+sname, "%d bytes left instead of the sentinel", len(x))
				}
				if d := gen.Equal(orig, got, fcheck.Ignore); d != "" {
					fail("mismatch", "DecodeFrame/"+sname, "differs at %s (compared after the source's memory was overwritten)", d)
				}
				if ref == nil {
					ref = got
				}
				// path 2: DecodeRawFrame + ConvertFromRawFrame
				r, rest = mk()
				rf, err := raw.DecodeRawFrame(r)
				if err != nil {
					fail("decode-error", "DecodeRawFrame/"+sname, "%v", err)
					continue
				}
				if x := rest(); !bytes.Equal(x, sentinel) {
					fail("consumption", "DecodeRawFrame/"+sname, "%d bytes left instead of the sentinel", len(x))
				}
				if !bytes.Equal(rf.Body, wire[hl:]) {
					fail("raw-body", "DecodeRawFrame/"+sname, "raw body differs from the bytes after the header (len %d vs %d)", len(rf.Body), len(wire)-hl)
				}
				conv, err := raw.ConvertFromRawFrame(rf)
				if err != nil {
					fail("decode-error", "ConvertFromRawFrame/"+sname, "%v", err)
				} else if d := gen.Equal(ref, conv, fcheck.Ignore); d != "" {
					fail("mismatch", "ConvertFromRawFrame/"+sname, "differs from DecodeFrame at %s", d)
				}
				// path 3: DecodeHeader + DecodeBody
				r, rest = mk()
				h, err := raw.DecodeHeader(r)
				if err != nil {
					fail("decode-error", "DecodeHeader/"+sname, "%v", err)
					continue
				}
				b, err := raw.DecodeBody(h, r)
				x3 := rest()
				if err != nil {
					fail("decode-error", "DecodeBody/"+sname, "%v", err)
				} else if d := gen.Equal(ref, &frame.Frame{Header: h, Body: b}, fcheck.Ignore); d != "" {
					fail("mismatch", "DecodeHeader+DecodeBody/"+sname, "differs at %s", d)
				}
				if !bytes.Equal(x3, sentinel) {
					fail("consumption", "DecodeHeader+DecodeBody/"+sname, "%d bytes left instead of the sentinel", len(x3))
				}
				// path 4: DecodeHeader + DecodeRawBody
				r, rest = mk()
				h, _ = raw.DecodeHeader(r)
				rb, err := raw.DecodeRawBody(h, r)
				x4 := rest()
				if err != nil {
					fail("decode-error", "DecodeRawBody/"+sname, "%v", err)
				} else if !bytes.Equal(rb, wire[hl:]) {
					fail("raw-body", "DecodeRawBody/"+sname, "raw body differs from the bytes after the header (compared after the source's memory was overwritten)")
				}
				if !bytes.Equal(x4, sentinel) {
					fail("consumption", "DecodeRawBody/"+sname, "%d bytes left instead of the sentinel", len(x4))
				}
				// path 5: DecodeHeader + DiscardBody
				r, rest = mk()
				h, _ = raw.DecodeHeader(r)
				if err := raw.DiscardBody(h, r); err != nil {
					fail("decode-error", "DiscardBody/"+sname, "%v", err)
				}
				if x := rest(); !bytes.Equal(x, sentinel) {
					fail("consumption", "DiscardBody/"+sname, "%d bytes left instead of the sentinel", len(x))
				}
				atomic.AddInt64(&validated, 5)
			}
			if ref == nil {
				continue
			}
			// path 6: ConvertToRawFrame + EncodeRawFrame
			f6 := gen.Clone(orig).(*frame.Frame)
			rf6, err := raw.ConvertToRawFrame(f6)
			if err != nil {
				fail("encode-error", "ConvertToRawFrame", "%v", err)
			} else {
				// the raw frame as returned (EncodeRawFrame below rewrites the length): declared length = body, and it converts back
				if int(rf6.Header.BodyLength) != len(rf6.Body) {
					fail("raw-length", "ConvertToRawFrame", "Header.BodyLength=%d, body has %d bytes", rf6.Header.BodyLength, len(rf6.Body))
				}
				if back, err := raw.ConvertFromRawFrame(rf6); err != nil {
					fail("decode-error", "ConvertToRawFrame+ConvertFromRawFrame", "%v", err)
				} else if d := gen.Equal(orig, back, fcheck.Ignore); d != "" {
					fail("mismatch", "ConvertToRawFrame+ConvertFromRawFrame", "differs at %s", d)
				}
				// successive conversions must not share memory: encode the *previous* raw frame only now
				mu.Lock()
				key := fmt.Sprintf("%v|%s", v, comp)
				p := lastRaw[key]
				lastRaw[key] = &prev{cs.Name, rf6, gen.Clone(orig).(*frame.Frame), comp}
				mu.Unlock()
				if p != nil {
					out := &bytes.Buffer{}
					if err := raw.EncodeRawFrame(p.raw, out); err != nil {
						fail("encode-error", "EncodeRawFrame", "%v", err)
					} else if got, err := codec.DecodeFrame(bytes.NewReader(out.Bytes())); err != nil {
						c.Violation(keys("decode-error", "ConvertToRawFrame;ConvertToRawFrame;EncodeRawFrame"), fmt.Sprintf("raw frame of %s no longer decodes after a later ConvertToRawFrame (%s): %v", p.name, cs.Name, err), []string{p.name, cs.Name})
					} else if d := gen.Equal(p.f, got, fcheck.Ignore); d != "" {
						c.Violation(keys("mismatch", "ConvertToRawFrame;ConvertToRawFrame;EncodeRawFrame"), fmt.Sprintf("raw frame of %s changed after a later ConvertToRawFrame (%s): differs at %s", p.name, cs.Name, d), []string{p.name, cs.Name})
					}
				}
				// ... and on this goroutine: another conversion between ConvertToRawFrame and EncodeRawFrame
				// (a scratch buffer recycled through a pool comes straight back to the next caller)
				other := frame.NewFrame(v, 1, &message.Query{Query: "SELECT something_else FROM another_table WHERE k = ?", Options: &message.QueryOptions{Consistency: primitive.ConsistencyLevelOne}})
				_, _ = raw.ConvertToRawFrame(other)
				out := &bytes.Buffer{}
				if err := raw.EncodeRawFrame(rf6, out); err != nil {
					fail("encode-error", "EncodeRawFrame", "%v", err)
				} else if got, err := codec.DecodeFrame(bytes.NewReader(out.Bytes())); err != nil {
					fail("decode-error", "ConvertToRawFrame+EncodeRawFrame", "bytes do not decode: %v", err)
				} else if d := gen.Equal(orig, got, fcheck.Ignore); d != "" {
					fail("mismatch", "ConvertToRawFrame+EncodeRawFrame", "differs at %s", d)
				}
			}
			// path 7: EncodeHeader + EncodeBody
			f7 := gen.Clone(orig).(*frame.Frame)
			body := &bytes.Buffer{}
			if err := raw.EncodeBody(f7.Header, f7.Body, body); err != nil {
				fail("encode-error", "EncodeBody", "%v", err)
			} else {
				f7.Header.BodyLength = int32(body.Len())
				out := &bytes.Buffer{}
				if err := raw.EncodeHeader(f7.Header, out); err != nil {
					fail("encode-error", "EncodeHeader", "%v", err)
				} else {
					out.Write(body.Bytes())
					if got, err := codec.DecodeFrame(bytes.NewReader(out.Bytes())); err != nil {
						fail("decode-error", "EncodeHeader+EncodeBody", "bytes do not decode: %v", err)
					} else if d := gen.Equal(orig, got, fcheck.Ignore); d != "" {
						fail("mismatch", "EncodeHeader+EncodeBody", "differs at %s", d)
					}
				}
			}
			reencode(c, cs, codec, comp, wire, &reenc)
		}
	})
	// re-encode clause over mutated-but-decodable inputs (run in memory-limited sub-processes, see C04)
	mutfam.BuildCorpus(c.Thorough())
	rst, err := iso.Run(iso.Lookup("c05-reencode"), 768<<20, 120*time.Second, c.Deadline(), mutfam.DescribeReencode)
	if err != nil {
		c.Broken("isolated executor: %v", err)
	}
	for _, f := range rst.Findings {
		c.Violation(f.Keys, f.What, f.Replay)
	}
	if rst.Truncated {
		c.Cap("internal deadline reached in the re-encode clause over mutated inputs")
	}
	reenc += rst.Cases
	c.Set("reencode_mutants", rst.Cases)
	c.Sample(map[string]interface{}{"note": "each frame goes through 7 paths x 7 source kinds (seekable bytes.Reader, plain, one-byte and half readers, a bytes.Buffer holding trailing bytes, a bytes.Buffer holding exactly the frame, a bufio.Reader over a chunked connection); the memory of the source is overwritten before the results are compared"})
	c.Set("states", n)
	c.Set("transitions", evals*5+reenc)
	c.Set("traces_validated_against_impl", validated+reenc)
	c.Set("frames_generated", n)
	c.Set("reencoded", reenc)
	c.Set("bound", map[string]interface{}{"field_deviations": o.D, "type_depth": o.TypeDepth})
	c.Set("rule", "every generated frame x compression through DecodeFrame, DecodeRawFrame+ConvertFromRawFrame, DecodeHeader+DecodeBody, +DecodeRawBody, +DiscardBody (7 kinds of source, source memory overwritten before comparing), ConvertToRawFrame+EncodeRawFrame (also delayed past the next conversion), EncodeHeader+EncodeBody; re-encode clause (decode -> encode -> decode) on every frame")
	c.Finish()
}

// reencode is the re-encode clause on inputs other than the library's own encodings; the mutated
// inputs are produced by the isolated executor of C04 (a mutated count can make a decoder allocate
// gigabytes, so they cannot be run in this process); here: the frame decoded from its own bytes.
func reencode(c *vlib.Check, cs gen.Case, codec frame.Codec, comp primitive.Compression, wire []byte, reenc *int64) {
	d1, err := codec.DecodeFrame(bytes.NewReader(wire))
	if err != nil {
		return
	}
	atomic.AddInt64(reenc, 1)
	snap := gen.Clone(d1).(*frame.Frame)
	out := &bytes.Buffer{}
	if err := codec.EncodeFrame(d1, out); err != nil {
		c.Violation(map[string]string{"kind": "reencode-error", "msg": fcheck.Kind(cs.Name)}, fmt.Sprintf("%s (%s): decoded frame cannot be re-encoded: %v", cs.Name, comp, err), cs.Name)
		return
	}
	d2, err := codec.DecodeFrame(bytes.NewReader(out.Bytes()))
	if err != nil {
		c.Violation(map[string]string{"kind": "reencode-decode-error", "msg": fcheck.Kind(cs.Name)}, fmt.Sprintf("%s (%s): decode -> encode gives bytes that do not decode: %v", cs.Name, comp, err), cs.Name)
	} else if d := gen.Equal(snap, d2, fcheck.Ignore); d != "" {
		c.Violation(map[string]string{"kind": "reencode-mismatch", "msg": fcheck.Kind(cs.Name), "diff": fcheck.DiffClass(d)}, fmt.Sprintf("%s (%s): decode -> encode -> decode differs at %s", cs.Name, comp, d), cs.Name)
	}
}
