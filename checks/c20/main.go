// C20 — frame mutators keep flags and body in step; STARTUP option accessors are consistent.
// E3: explicit-state BFS to fixpoint over mutator histories on real frames of every message kind
// and version; BFS over setter histories of the real Startup message against a reference map.
package main

import (
	"bytes"
	"encoding/binary"
	"fmt"
	"reflect"
	"sort"
	"strings"
	"sync"

	"github.com/datastax/go-cassandra-native-protocol/frame"
	"github.com/datastax/go-cassandra-native-protocol/message"
	"github.com/datastax/go-cassandra-native-protocol/primitive"

	"verif/fcheck"
	"verif/gen"
	"verif/vlib"
)

type mop struct {
	name  string
	apply func(f *frame.Frame)
	resp  int // 0 both directions, 1 responses only, 2 requests only
}

var uuid = primitive.UUID{1, 2, 3, 4, 5, 6, 7, 8, 9, 10, 11, 12, 13, 14, 15, 16}

func mutators() []mop {
	return []mop{
		{"SetCustomPayload(nil)", func(f *frame.Frame) { f.SetCustomPayload(nil) }, 0},
		{"SetCustomPayload(empty)", func(f *frame.Frame) { f.SetCustomPayload(map[string][]byte{}) }, 0},
		{"SetCustomPayload(1 entry)", func(f *frame.Frame) { f.SetCustomPayload(map[string][]byte{"k": {1}}) }, 0},
		{"SetCompress(true)", func(f *frame.Frame) { f.SetCompress(true) }, 0},
		{"SetCompress(false)", func(f *frame.Frame) { f.SetCompress(false) }, 0},
		{"SetWarnings(nil)", func(f *frame.Frame) { f.SetWarnings(nil) }, 1},
		{"SetWarnings(empty)", func(f *frame.Frame) { f.SetWarnings([]string{}) }, 1},
		{"SetWarnings(1)", func(f *frame.Frame) { f.SetWarnings([]string{"w"}) }, 1},
		{"SetTracingId(nil)", func(f *frame.Frame) { f.SetTracingId(nil) }, 0}, // clearing is legal on every frame: "removed along with the corresponding header flag"
		{"SetTracingId(id)", func(f *frame.Frame) { u := uuid; f.SetTracingId(&u) }, 1},
		{"RequestTracingId(true)", func(f *frame.Frame) { f.RequestTracingId(true) }, 2},
		{"RequestTracingId(false)", func(f *frame.Frame) { f.RequestTracingId(false) }, 0}, // on a response it leaves the id in the body and clears the flag: the id must then not be written
	}
}

// reference state of the optional parts, updated by the documented meaning of each mutator
type refState struct {
	payload, warnings int // 0 nil, 1 empty, 2 non-empty
	tracingId         bool
	tracingRequested  bool
	compress          bool
}

func (r refState) next(op string, compressible bool) refState {
	switch op {
	case "SetCustomPayload(nil)":
		r.payload = 0
	case "SetCustomPayload(empty)":
		r.payload = 1
	case "SetCustomPayload(1 entry)":
		r.payload = 2
	case "SetCompress(true)":
		r.compress = compressible
	case "SetCompress(false)":
		r.compress = false
	case "SetWarnings(nil)":
		r.warnings = 0
	case "SetWarnings(empty)":
		r.warnings = 1
	case "SetWarnings(1)":
		r.warnings = 2
	case "SetTracingId(nil)":
		r.tracingId = false
		r.tracingRequested = false // the flag is shared: clearing the tracing id clears the flag
	case "SetTracingId(id)":
		r.tracingId = true
		r.tracingRequested = true
	case "RequestTracingId(true)":
		r.tracingRequested = true
	case "RequestTracingId(false)":
		r.tracingRequested = false
	}
	return r
}

func canon(f *frame.Frame) string {
	part := func(n int, isNil bool) int {
		if isNil {
			return 0
		}
		if n == 0 {
			return 1
		}
		return 2
	}
	return fmt.Sprintf("flags=%08b payload=%d warnings=%d tracing=%v", uint8(f.Header.Flags), part(len(f.Body.CustomPayload), f.Body.CustomPayload == nil), part(len(f.Body.Warnings), f.Body.Warnings == nil), f.Body.TracingId != nil)
}

func main() {
	c := vlib.New("C20", "model_checking")
	var states, trans, validated int64
	var mu sync.Mutex
	lz := fcheck.Codec(primitive.CompressionLz4)
	lzRaw := fcheck.RawCodec(primitive.CompressionLz4)
	type task struct {
		v    gen.V
		name string
		msg  message.Message
	}
	var tasks []task
	for _, v := range gen.Versions {
		seen := map[string]bool{}
		for _, b := range gen.BasesPublic(v) {
			k := fcheck.Kind("x/" + b.Name)
			if seen[k] && !c.Thorough() {
				continue // quick: one instance per message kind; thorough: every variant
			}
			seen[k] = true
			tasks = append(tasks, task{v, b.Name, b.Msg})
		}
	}
	ops := mutators()
	vlib.ParFor(len(tasks), func(ti int) {
		t := tasks[ti]
		isResp := t.msg.IsResponse()
		compressible := true
		switch t.msg.(type) {
		case *message.Startup, *message.Options, *message.Ready:
			compressible = false
		}
		type node struct {
			path []int
			ref  refState
		}
		build := func(path []int) *frame.Frame {
			f := frame.NewFrame(t.v, 1, gen.Clone(t.msg).(message.Message))
			for _, o := range path {
				ops[o].apply(f)
			}
			return f
		}
		seen := map[string]bool{canon(build(nil)): true}
		frontier := []node{{nil, refState{}}}
		ls, lt, lv := int64(1), int64(0), int64(0)
		check := func(n node, f *frame.Frame) {
			names := func() []string {
				var s []string
				for _, o := range n.path {
					s = append(s, ops[o].name)
				}
				return s
			}
			fl := f.Header.Flags
			bad := func(kind, format string, a ...interface{}) {
				c.Violation(map[string]string{"kind": kind, "direction": map[bool]string{true: "response", false: "request"}[isResp]}, fmt.Sprintf("%v %s after %v: %s (state %s)", t.v, t.name, names(), fmt.Sprintf(format, a...), canon(f)), map[string]interface{}{"version": uint8(t.v), "message": t.name, "mutators": names()})
			}
			if fl.Contains(primitive.HeaderFlagCustomPayload) != (n.ref.payload == 2) || (len(f.Body.CustomPayload) > 0) != (n.ref.payload == 2) {
				bad("payload-flag", "custom-payload flag=%v, payload entries=%d, expected present=%v", fl.Contains(primitive.HeaderFlagCustomPayload), len(f.Body.CustomPayload), n.ref.payload == 2)
			}
			if fl.Contains(primitive.HeaderFlagWarning) != (n.ref.warnings == 2) || (len(f.Body.Warnings) > 0) != (n.ref.warnings == 2) {
				bad("warning-flag", "warning flag=%v, warnings=%d, expected present=%v", fl.Contains(primitive.HeaderFlagWarning), len(f.Body.Warnings), n.ref.warnings == 2)
			}
			wantTracing := n.ref.tracingRequested // the flag as last set by SetTracingId / RequestTracingId
			if fl.Contains(primitive.HeaderFlagTracing) != wantTracing {
				bad("tracing-flag", "tracing flag=%v, expected %v", fl.Contains(primitive.HeaderFlagTracing), wantTracing)
			}
			if isResp && (f.Body.TracingId != nil) != n.ref.tracingId {
				bad("tracing-id", "tracing id present=%v, expected %v", f.Body.TracingId != nil, n.ref.tracingId)
			}
			if fl.Contains(primitive.HeaderFlagCompressed) != n.ref.compress {
				bad("compress-flag", "compressed flag=%v, expected %v (compressible message: %v)", fl.Contains(primitive.HeaderFlagCompressed), n.ref.compress, compressible)
			}
			if !compressible && fl.Contains(primitive.HeaderFlagCompressed) {
				bad("compress-flag-forbidden", "compression flagged for a message that must never be compressed")
			}
			// encodes and round-trips whenever the parts present are legal for the version
			legal := (n.ref.payload != 2 && n.ref.warnings != 2) || (t.v != gen.V2 && t.v != gen.V3)
			if legal && gen.ValidMsgPublic(t.msg, t.v) {
				orig := gen.Clone(f).(*frame.Frame)
				if !fl.Contains(primitive.HeaderFlagTracing) {
					orig.Body.TracingId = nil // not announced by the header, hence not transmitted
				}
				buf := &bytes.Buffer{}
				if err := lz.EncodeFrame(f, buf); err != nil {
					bad("encode-error", "frame does not encode: %v", err)
					return
				}
				got, err := lz.DecodeFrame(bytes.NewReader(buf.Bytes()))
				if err != nil {
					bad("decode-error", "encoded frame does not decode: %v", err)
					return
				}
				if d := gen.Equal(orig, got, fcheck.Ignore); d != "" {
					bad("roundtrip-mismatch", "round trip differs at %s", d)
				}
				// a peer reads the header and then exactly the declared number of body bytes
				hl := 9
				if t.v == gen.V2 {
					hl = 8
				}
				if declared := int(int32(binary.BigEndian.Uint32(buf.Bytes()[hl-4 : hl]))); declared != buf.Len()-hl {
					bad("header-body-length", "header declares a body of %d bytes, %d were emitted", declared, buf.Len()-hl)
				} else if rf, err := lzRaw.DecodeRawFrame(bytes.NewReader(buf.Bytes())); err != nil {
					bad("decode-error", "encoded frame does not decode as a raw frame: %v", err)
				} else if got2, err := lzRaw.ConvertFromRawFrame(rf); err != nil {
					bad("decode-error", "raw frame does not convert: %v", err)
				} else if d := gen.Equal(orig, got2, fcheck.Ignore); d != "" {
					bad("roundtrip-mismatch", "round trip through DecodeRawFrame+ConvertFromRawFrame differs at %s", d)
				}
				lv++
			}
		}
		check(frontier[0], build(nil))
		for len(frontier) > 0 {
			var next []node
			for _, n := range frontier {
				for oi, op := range ops {
					if (op.resp == 1 && !isResp) || (op.resp == 2 && isResp) {
						continue
					}
					np := append(append([]int{}, n.path...), oi)
					f := build(np)
					nn := node{np, n.ref.next(op.name, compressible)}
					lt++
					k := canon(f) + fmt.Sprintf("|ref=%v", nn.ref)
					check(nn, f)
					if !seen[k] {
						seen[k] = true
						ls++
						next = append(next, nn)
					}
				}
			}
			frontier = next
		}
		mu.Lock()
		states += ls
		trans += lt
		validated += lv
		mu.Unlock()
	})
	c.Sample(map[string]interface{}{"message": "QUERY", "version": "v4", "mutators": []string{"SetCompress(true)", "SetCustomPayload(1 entry)", "SetCompress(false)"}})
	sStates, sTrans := startup(c)
	c.Set("states", states+sStates)
	c.Set("transitions", trans+sTrans)
	c.Set("traces_validated_against_impl", validated+sTrans)
	c.Set("frame_mutator_states", states)
	c.Set("frame_mutator_transitions", trans)
	c.Set("frames", len(tasks))
	c.Set("startup_states", sStates)
	c.Set("startup_transitions", sTrans)
	c.Set("rule", "frame mutators: BFS to fixpoint per (version, message) over {SetCustomPayload(nil|empty|1), SetCompress(t|f)} plus the direction-specific mutators, state = (flags, part presence classes, reference state); STARTUP: BFS to fixpoint over every Set* method discovered by reflection x small value sets, compared with a reference map after every step")
	c.Finish()
}

// ---------------------------------------------------------------------------------------------

// reference option key of each accessor pair (protocol spec section 4.1.1 and the DataStax driver option names)
var refKeys = map[string]string{"Compression": "COMPRESSION", "ClientId": "CLIENT_ID", "ApplicationName": "APPLICATION_NAME", "ApplicationVersion": "APPLICATION_VERSION", "DriverName": "DRIVER_NAME", "DriverVersion": "DRIVER_VERSION", "ThrowOnOverload": "THROW_ON_OVERLOAD"}

type sop struct {
	prop string
	set  reflect.Method
	get  reflect.Method
	arg  reflect.Value
	desc string
}

func startup(c *vlib.Check) (int64, int64) {
	t := reflect.TypeOf(&message.Startup{})
	var ops []sop
	for i := 0; i < t.NumMethod(); i++ {
		m := t.Method(i)
		if !strings.HasPrefix(m.Name, "Set") || m.Type.NumIn() != 2 {
			continue
		}
		prop := strings.TrimPrefix(m.Name, "Set")
		g, ok := t.MethodByName("Get" + prop)
		if !ok {
			g, ok = t.MethodByName("Is" + prop)
		}
		if !ok {
			c.Violation(map[string]string{"kind": "setter-without-getter", "accessor": prop}, "Startup.Set"+prop+" has no matching getter", prop)
			continue
		}
		var args []interface{}
		switch m.Type.In(1).Kind() {
		case reflect.String:
			args = []interface{}{"", "a", "1", "NONE", "LZ4"}
		case reflect.Bool:
			args = []interface{}{true, false}
		default:
			continue
		}
		for _, a := range args {
			ops = append(ops, sop{prop, m, g, reflect.ValueOf(a).Convert(m.Type.In(1)), fmt.Sprintf("Set%s(%v)", prop, a)})
		}
	}
	type state struct {
		opts map[string]string
		ref  map[string]interface{} // accessor -> last value set
		path []string
	}
	clone := func(m map[string]string) map[string]string {
		o := map[string]string{}
		for k, v := range m {
			o[k] = v
		}
		return o
	}
	key := func(m map[string]string, ref map[string]interface{}) string {
		var ks []string
		for k, v := range m {
			ks = append(ks, k+"="+v)
		}
		for k, v := range ref {
			ks = append(ks, "ref:"+k+"="+fmt.Sprint(v))
		}
		sort.Strings(ks)
		return strings.Join(ks, ";")
	}
	inits := []map[string]string{message.NewStartup().Options, {"CQL_VERSION": "3.0.0", "X_CUSTOM": "y", "THROW_ON_OVERLOAD": "0"}}
	var nStates, nTrans int64
	for _, init := range inits {
		seen := map[string]bool{}
		frontier := []state{{clone(init), map[string]interface{}{}, nil}}
		seen[key(init, nil)] = true
		nStates++
		for depth := 0; len(frontier) > 0; depth++ {
			if !c.Thorough() && depth >= 3 {
				c.Set("startup_depth_bound", 3)
				break
			}
			var next []state
			for _, s := range frontier {
				for _, op := range ops {
					nTrans++
					st := &message.Startup{Options: clone(s.opts)}
					before := clone(s.opts)
					op.set.Func.Call([]reflect.Value{reflect.ValueOf(st), op.arg})
					ref := map[string]interface{}{}
					for k, v := range s.ref {
						ref[k] = v
					}
					ref[op.prop] = op.arg.Interface()
					path := append(append([]string{}, s.path...), op.desc)
					// what a setter stores is what the matching getter returns
					for _, o2 := range ops {
						want, wasSet := ref[o2.prop]
						if !wasSet {
							continue
						}
						got := o2.get.Func.Call([]reflect.Value{reflect.ValueOf(st)})[0].Interface()
						if fmt.Sprint(got) != fmt.Sprint(want) && !(o2.prop == "Compression" && fmt.Sprint(want) == "NONE" && fmt.Sprint(got) == "NONE") {
							c.Violation(map[string]string{"kind": "getter-mismatch", "accessor": o2.prop, "after": op.prop}, fmt.Sprintf("after %v: %s returns %v, last value set was %v", path, o2.get.Name, got, want), path)
						}
					}
					// no other option changes: at most the accessor's own key differs from before
					own := refKeys[op.prop]
					for k, v := range before {
						if nv, ok := st.Options[k]; (!ok || nv != v) && k != own {
							c.Violation(map[string]string{"kind": "foreign-key-changed", "accessor": op.prop, "key": k}, fmt.Sprintf("%s changed option %s (%q -> %q present=%v)", op.desc, k, v, nv, ok), path)
						}
					}
					for k, v := range st.Options {
						if _, ok := before[k]; !ok && k != own {
							c.Violation(map[string]string{"kind": "foreign-key-added", "accessor": op.prop, "key": k}, fmt.Sprintf("%s added option %s=%q (its own key is %s)", op.desc, k, v, own), path)
						}
					}
					k := key(st.Options, ref)
					if !seen[k] {
						seen[k] = true
						nStates++
						next = append(next, state{clone(st.Options), ref, path})
					}
				}
			}
			frontier = next
		}
	}
	c.Set("startup_setters", len(ops))
	return nStates, nTrans
}
