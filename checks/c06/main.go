// C06 — segment round trip and v5 framing layout.
package main

import (
	"bytes"
	"encoding/hex"
	"fmt"
	"io"
	"sync/atomic"
	"testing/iotest"

	"github.com/datastax/go-cassandra-native-protocol/compression/lz4"
	"github.com/datastax/go-cassandra-native-protocol/segment"
	plz4 "github.com/pierrec/lz4/v4"

	"verif/fcheck"
	"verif/gen"
	"verif/ref/reflz4"
	"verif/ref/refseg"
	"verif/vlib"
)

func lengths(thorough bool) []int {
	set := map[int]bool{}
	if thorough {
		for i := 0; i <= refseg.MaxPayload; i++ {
			set[i] = true
		}
	} else {
		for i := 0; i <= 4096; i++ {
			set[i] = true
		}
		for p := 4096; p <= 131072; p *= 2 {
			for d := -8; d <= 8; d++ {
				if p+d <= refseg.MaxPayload {
					set[p+d] = true
				}
			}
		}
		for i := 131064; i <= refseg.MaxPayload; i++ {
			set[i] = true
		}
	}
	out := make([]int, 0, len(set))
	for i := 0; i <= refseg.MaxPayload; i++ {
		if set[i] {
			out = append(out, i)
		}
	}
	return out
}

func hx(b []byte) string {
	if len(b) > 64 {
		b = b[:64]
	}
	return hex.EncodeToString(b)
}

func main() {
	c := vlib.New("C06", "model_checking")
	ls := lengths(c.Thorough())
	classes := gen.PayloadClasses
	if c.Thorough() {
		// every length with 4 classes, boundary lengths with all
		classes = []string{"zeros", "p7", "text", "random"}
	}
	var evals, validated, refDecoded int64
	plain := segment.NewCodec()
	lz := segment.NewCodecWithCompression(lz4.Compressor{})
	vlib.ParFor(len(ls), func(i int) {
		n := ls[i]
		cls := classes
		if c.Thorough() {
			// every length with one of 4 classes in rotation; small, power-of-two, window-edge and maximal lengths with all classes
			cls = []string{classes[n%len(classes)]}
			if n <= 4096 || n&(n-1) == 0 || n >= 131000 || (n >= 65530 && n <= 65560) {
				cls = gen.PayloadClasses
			}
		}
		for _, class := range cls {
			payload := gen.Payload(n, class)
			for _, sc := range []bool{true, false} {
				// ---------- no compressor: bytes must equal the reference exactly ----------
				atomic.AddInt64(&evals, 2)
				seg := &segment.Segment{Header: &segment.Header{IsSelfContained: sc}, Payload: &segment.Payload{UncompressedData: append([]byte{}, payload...)}}
				buf := &bytes.Buffer{}
				if err := plain.EncodeSegment(seg, buf); err != nil {
					c.Violation(map[string]string{"kind": "encode-error", "codec": "none"}, fmt.Sprintf("payload of %d bytes (%s) refused: %v", n, class, err), map[string]interface{}{"len": n, "class": class})
					continue
				}
				want := refseg.Uncompressed(payload, sc)
				if !bytes.Equal(buf.Bytes(), want) {
					c.Violation(map[string]string{"kind": "layout", "codec": "none", "part": firstDiffPart(buf.Bytes(), want, 6, n)}, fmt.Sprintf("uncompressed segment, payload %d bytes (%s), self-contained=%v: emitted bytes differ from the v5 layout\n got  %s\n want %s", n, class, sc, hx(buf.Bytes()), hx(want)), map[string]interface{}{"len": n, "class": class, "self_contained": sc})
				}
				if int(seg.Header.UncompressedPayloadLength) != n {
					c.Violation(map[string]string{"kind": "header-struct", "codec": "none"}, fmt.Sprintf("Header.UncompressedPayloadLength=%d after encoding %d bytes", seg.Header.UncompressedPayloadLength, n), n)
				}
				checkDecode(c, plain, "none", buf.Bytes(), payload, sc, &validated)
				// reference bytes must decode
				checkDecode(c, plain, "none/ref", want, payload, sc, &refDecoded)
				// ---------- LZ4 ----------
				blockBad := false
				seg = &segment.Segment{Header: &segment.Header{IsSelfContained: sc}, Payload: &segment.Payload{UncompressedData: append([]byte{}, payload...)}}
				buf = &bytes.Buffer{}
				if err := lz.EncodeSegment(seg, buf); err != nil {
					c.Violation(map[string]string{"kind": "encode-error", "codec": "lz4"}, fmt.Sprintf("payload of %d bytes (%s) refused: %v", n, class, err), map[string]interface{}{"len": n, "class": class})
					continue
				}
				wire := buf.Bytes()
				if len(wire) < 12 {
					c.Violation(map[string]string{"kind": "layout", "codec": "lz4", "part": "short"}, fmt.Sprintf("LZ4 segment of only %d bytes for a payload of %d", len(wire), n), n)
					continue
				}
				cl, ul, flag, crc, pad := refseg.ParseCompressedHeader(wire)
				hdrWant := refseg.HeaderCompressed(cl, ul, flag)
				switch {
				case pad != 0:
					c.Violation(map[string]string{"kind": "layout", "codec": "lz4", "part": "padding"}, fmt.Sprintf("LZ4 header padding bits not zero for payload %d (%s)", n, class), n)
				case flag != sc:
					c.Violation(map[string]string{"kind": "layout", "codec": "lz4", "part": "flag"}, fmt.Sprintf("LZ4 header flag bit %v, expected %v, payload %d (%s)", flag, sc, n, class), n)
				case !bytes.Equal(wire[:8], hdrWant):
					c.Violation(map[string]string{"kind": "layout", "codec": "lz4", "part": "crc24"}, fmt.Sprintf("LZ4 header CRC-24 %06x does not match the header fields, payload %d (%s)", crc, n, class), n)
				case len(wire) != 8+cl+4:
					c.Violation(map[string]string{"kind": "layout", "codec": "lz4", "part": "compressed-length"}, fmt.Sprintf("LZ4 header declares %d transmitted bytes, segment carries %d, payload %d (%s)", cl, len(wire)-12, n, class), n)
				default:
					tx := wire[8 : 8+cl]
					gotCrc := uint32(wire[8+cl]) | uint32(wire[9+cl])<<8 | uint32(wire[10+cl])<<16 | uint32(wire[11+cl])<<24
					if gotCrc != refseg.Crc32(tx) {
						c.Violation(map[string]string{"kind": "layout", "codec": "lz4", "part": "crc32"}, fmt.Sprintf("payload CRC-32 is not the seeded CRC of the bytes as transmitted, payload %d (%s)", n, class), n)
					}
					if ul == 0 {
						// fallback: payload sent uncompressed, its true length in the compressed-length field
						if !bytes.Equal(tx, payload) {
							c.Violation(map[string]string{"kind": "layout", "codec": "lz4", "part": "fallback"}, fmt.Sprintf("uncompressed-length field is 0 (fallback) but the transmitted bytes are not the payload, payload %d (%s)", n, class), n)
						}
					} else {
						if ul != n {
							c.Violation(map[string]string{"kind": "layout", "codec": "lz4", "part": "uncompressed-length"}, fmt.Sprintf("uncompressed-length field %d for a payload of %d bytes (%s)", ul, n, class), n)
						}
						out := make([]byte, n)
						m, err := plz4.UncompressBlock(tx, out)
						if err != nil || m != n || !bytes.Equal(out[:m], payload) {
							if cause := fcheck.LZ4Cause(payload, tx); cause != "" {
								// the compressor of the dependency produced a block that is wrong by itself; the decode
								// failure that would follow is the same finding
								c.Violation(map[string]string{"kind": "lz4-corrupt-block", "cause": cause}, fmt.Sprintf("the LZ4 block emitted for a payload of %d bytes (%s) does not reproduce the payload (independent block reader): n=%d err=%v", n, class, m, err), map[string]interface{}{"len": n, "class": class})
								blockBad = true
							} else {
								c.Violation(map[string]string{"kind": "layout", "codec": "lz4", "part": "block"}, fmt.Sprintf("transmitted block does not decompress (independently) to the payload: n=%d err=%v, payload %d (%s)", m, err, n, class), n)
							}
						}
					}
				}
				if !blockBad {
					checkDecode(c, lz, "lz4", wire, payload, sc, &validated)
				}
				// reference encodings for a compressing connection: fallback form and compressed form
				checkDecode(c, lz, "lz4/ref-fallback", refseg.Compressed(payload, 0, sc), payload, sc, &refDecoded)
				if n > 0 {
					cb := make([]byte, plz4.CompressBlockBound(n))
					if m, err := plz4.CompressBlock(payload, cb, nil); err == nil && m > 0 && m <= refseg.MaxPayload {
						if d, ok := reflz4.Decode(cb[:m]); !ok || !bytes.Equal(d, payload) {
							continue // the block is not a valid encoding of the payload: not a reference segment
						}
						checkDecode(c, lz, "lz4/ref-compressed", refseg.Compressed(cb[:m], n, sc), payload, sc, &refDecoded)
					}
				}
			}
		}
	})
	// successive decodes with one codec must not share memory: decode several, then compare all
	for name, codec := range map[string]segment.Codec{"none": plain, "lz4": lz} {
		var segs []*segment.Segment
		var wants [][]byte
		for _, n := range []int{300, 0, 1, 5, 4096, 299, 131071, 7} {
			for _, class := range []string{"random", "p7"} {
				p := gen.Payload(n, class)
				buf := &bytes.Buffer{}
				if err := codec.EncodeSegment(&segment.Segment{Header: &segment.Header{IsSelfContained: true}, Payload: &segment.Payload{UncompressedData: append([]byte{}, p...)}}, buf); err != nil {
					continue
				}
				if sg, err := codec.DecodeSegment(bytes.NewReader(buf.Bytes())); err == nil {
					segs = append(segs, sg)
					wants = append(wants, p)
				}
			}
		}
		for i, sg := range segs {
			evals++
			if !bytes.Equal(sg.Payload.UncompressedData, wants[i]) {
				c.Violation(map[string]string{"kind": "payload-changed-by-later-decode", "codec": name}, fmt.Sprintf("segment %d of a sequence decoded with one codec no longer holds its payload after later decodes", i), i)
				break
			}
		}
	}
	// error paths must leave nothing behind: an encode into a writer that fails after k bytes (every k), then a
	// probe segment encoded with the same codec and with a fresh one must come out as it does alone
	for name, mk := range map[string]func() segment.Codec{"none": func() segment.Codec { return segment.NewCodec() }, "lz4": func() segment.Codec { return segment.NewCodecWithCompression(lz4.Compressor{}) }} {
		probeSeg := func() *segment.Segment {
			return &segment.Segment{Header: &segment.Header{IsSelfContained: true}, Payload: &segment.Payload{UncompressedData: gen.Payload(200, "p7")}}
		}
		want := &bytes.Buffer{}
		if err := mk().EncodeSegment(probeSeg(), want); err != nil {
			continue
		}
		for _, class := range []string{"p7", "random"} {
			victim := gen.Payload(120, class)
			full := &bytes.Buffer{}
			_ = mk().EncodeSegment(&segment.Segment{Header: &segment.Header{IsSelfContained: false}, Payload: &segment.Payload{UncompressedData: victim}}, full)
			for k := 0; k <= full.Len(); k++ {
				evals++
				codec := mk()
				_ = codec.EncodeSegment(&segment.Segment{Header: &segment.Header{IsSelfContained: false}, Payload: &segment.Payload{UncompressedData: append([]byte{}, victim...)}}, &failingWriter{left: k})
				for which, pc := range map[string]segment.Codec{"same codec": codec, "fresh codec": mk()} {
					got := &bytes.Buffer{}
					if err := pc.EncodeSegment(probeSeg(), got); err != nil || !bytes.Equal(got.Bytes(), want.Bytes()) {
						c.Violation(map[string]string{"kind": "history-leftover", "codec": name}, fmt.Sprintf("after an EncodeSegment (%s payload) that failed at byte %d, the next segment encoded with the %s differs from the same segment encoded alone (err=%v, %d vs %d bytes)", class, k, which, err, got.Len(), want.Len()), k)
					}
				}
			}
		}
	}
	// refusal of larger payloads
	for _, n := range []int{131072, 131073, 262144} {
		for _, codec := range []segment.Codec{plain, lz} {
			evals++
			seg := &segment.Segment{Header: &segment.Header{IsSelfContained: true}, Payload: &segment.Payload{UncompressedData: make([]byte, n)}}
			buf := &bytes.Buffer{}
			if err := codec.EncodeSegment(seg, buf); err == nil {
				c.Violation(map[string]string{"kind": "oversize-accepted"}, fmt.Sprintf("payload of %d bytes accepted (maximum is %d)", n, refseg.MaxPayload), n)
			}
		}
	}
	c.Sample(map[string]interface{}{"payload_len": 300, "class": "p7", "self_contained": true, "reference_bytes_prefix": hx(refseg.Uncompressed(gen.Payload(300, "p7"), true))})
	c.Set("states", int64(len(ls))*int64(len(classes))*2)
	c.Set("transitions", evals)
	c.Set("traces_validated_against_impl", validated+refDecoded)
	c.Set("reference_segments_decoded_by_impl", refDecoded)
	c.Set("payload_lengths", len(ls))
	c.Set("content_classes", classes)
	c.Set("rule", "payload length x content class x self-contained x {no compressor, LZ4}; quick: lengths 0..4096, +-8 around every power of two, the last 8, all classes; thorough: every length 0..131071 with one of 4 classes in rotation and all classes at small, power-of-two, window-edge and maximal lengths")
	c.Finish()
}

func firstDiffPart(got, want []byte, hdr, n int) string {
	for i := 0; i < len(got) && i < len(want); i++ {
		if got[i] != want[i] {
			switch {
			case i < hdr-3:
				return "header"
			case i < hdr:
				return "crc24"
			case i < hdr+n:
				return "payload"
			default:
				return "crc32"
			}
		}
	}
	return "length"
}

// failingWriter accepts `left` bytes, then fails.
type failingWriter struct{ left int }

func (w *failingWriter) Write(p []byte) (int, error) {
	if len(p) <= w.left {
		w.left -= len(p)
		return len(p), nil
	}
	n := w.left
	w.left = 0
	return n, fmt.Errorf("injected write failure")
}

var c06Sentinel = []byte{0xde, 0xad, 0xbe, 0xef, 0x55}

type plainReader struct{ r io.Reader }

func (p plainReader) Read(b []byte) (int, error) { return p.r.Read(b) }

// checkDecode decodes a valid segment from two kinds of source - a bytes.Reader and a *bytes.Buffer
// that holds trailing bytes (alternating with a plain and a half reader by payload length) - and
// OVERWRITES the memory the source was reading from before it looks at the result: the decoder must
// consume exactly the segment and must hand out a payload that does not alias its source.
func checkDecode(c *vlib.Check, codec segment.Codec, name string, wire, payload []byte, sc bool, counter *int64) {
	for k := 0; k < 2; k++ {
		back := append(append([]byte{}, wire...), c06Sentinel...)
		var src io.Reader
		var rest func() []byte
		kind := "bytes.Reader"
		switch {
		case k == 1:
			kind = "bytes.Buffer"
			bb := bytes.NewBuffer(back)
			src, rest = bb, func() []byte { return append([]byte{}, bb.Bytes()...) }
		default:
			br := bytes.NewReader(back)
			rest = func() []byte { x, _ := io.ReadAll(br); return x }
			switch len(payload) % 3 {
			case 0:
				src = br
			case 1:
				kind, src = "plain reader", plainReader{br}
			default:
				kind, src = "half reader", iotest.HalfReader(br)
			}
		}
		var seg *segment.Segment
		var err error
		if pv, site := vlib.Catch(func() { seg, err = codec.DecodeSegment(src) }); pv != nil {
			c.Violation(map[string]string{"kind": "decode-panic", "codec": name, "site": site}, fmt.Sprintf("DecodeSegment panics on a valid segment (payload %d, %s): %v", len(payload), kind, pv), len(payload))
			return
		}
		if err != nil {
			c.Violation(map[string]string{"kind": "decode-error", "codec": name}, fmt.Sprintf("valid segment (%s) with a payload of %d bytes does not decode from a %s: %v", name, len(payload), kind, err), map[string]interface{}{"len": len(payload), "wire_prefix": hx(wire)})
			return
		}
		atomic.AddInt64(counter, 1)
		left := rest()
		for i := range back {
			back[i] = 0xEE
		}
		if !bytes.Equal(left, c06Sentinel) {
			c.Violation(map[string]string{"kind": "consumption", "codec": name, "source": kind}, fmt.Sprintf("decoding one segment (payload %d) from a %s leaves %d bytes instead of the 5 that follow it", len(payload), kind, len(left)), len(payload))
		}
		if !bytes.Equal(seg.Payload.UncompressedData, payload) {
			c.Violation(map[string]string{"kind": "payload-mismatch", "codec": name}, fmt.Sprintf("decoded payload differs (got %d bytes, sent %d; source %s, compared after the source's memory was overwritten)", len(seg.Payload.UncompressedData), len(payload), kind), len(payload))
		}
		if seg.Header.IsSelfContained != sc {
			c.Violation(map[string]string{"kind": "flag-mismatch", "codec": name}, fmt.Sprintf("decoded self-contained flag %v, sent %v", seg.Header.IsSelfContained, sc), len(payload))
		}
		if int(seg.Header.UncompressedPayloadLength) != len(payload) {
			c.Violation(map[string]string{"kind": "header-length-inconsistent", "codec": name}, fmt.Sprintf("decoded Header.UncompressedPayloadLength=%d for a payload of %d bytes", seg.Header.UncompressedPayloadLength, len(payload)), len(payload))
		}
	}
}
