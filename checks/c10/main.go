// C10 — responses reach exactly the request with the same stream id.
// E3: BFS to fixpoint over operation histories of the real in-flight handler against a reference
// model; E2: exhaustive preemption-bounded schedules of multi-threaded handler scenarios.
package main

import (
	"verif/hmodel"
	"verif/vlib"
)

func main() {
	hmodel.RegisterHandlerLevel()
	if hmodel.Dispatch() {
		return
	}
	c := vlib.New("C10", "model_checking")
	t := &hmodel.Totals{}
	hmodel.RunHandlerLevel(c, "C10", t, "panic", "deadlock", "livelock")
	hmodel.Finish(c, t, "BFS: a state is the canonical dump of the real handler (in-flight entries with managed/queued/done, free-id FIFO in order, closed flag); every transition is the real operation compared with the reference model, plus a conservation probe (answer everything, then N managed sends) from every reachable state. Explore: a schedule is a vector of scheduler choices (preemption-bounded); outcomes are distinct observation logs.")
}
