package hconn

import (
	"bytes"
	"fmt"
	"sort"
	"strings"
	"time"

	"github.com/datastax/go-cassandra-native-protocol/client"
	"github.com/datastax/go-cassandra-native-protocol/frame"
	"github.com/datastax/go-cassandra-native-protocol/message"
	"github.com/datastax/go-cassandra-native-protocol/primitive"
	"github.com/datastax/go-cassandra-native-protocol/verifrt/sched"
	"github.com/datastax/go-cassandra-native-protocol/verifrt/vctx"
	"github.com/datastax/go-cassandra-native-protocol/verifrt/vnet"

	"verif/engine/explore"
	"verif/gen"
	"verif/ref/refseg"
)

// Connection-level scenarios for C09 (stream ids as the PEER sees them on the wire) and C10
// (delivery of responses, pages, events and spurious responses): the real CqlClientConnection with
// automatic stream ids against a raw peer thread that records every id it receives and answers in
// a chosen order.

// idsPeer is the raw peer: it reads requests, keeps the set of ids it has not answered yet and
// reports a request whose id is outside 1..N or equal to that of an unanswered request.
type idsPeer struct {
	v           primitive.ProtocolVersion
	e           *vnet.End
	o           *explore.Obs
	n           int
	modern      bool
	queue       []*frame.Frame
	outstanding map[int16]string
	seen        []int16
	responses   int
	err         string
}

func (p *idsPeer) read() *frame.Frame {
	if p.err != "" {
		return nil
	}
	if len(p.queue) == 0 {
		if p.modern {
			fs, err := readEnvelopes(p.e, false, 1)
			if err != nil {
				p.err = "peer read: " + err.Error()
				return nil
			}
			p.queue = fs
		} else {
			f, err := frame.NewCodec().DecodeFrame(p.e)
			if err != nil {
				p.err = "peer read: " + err.Error()
				return nil
			}
			p.queue = []*frame.Frame{f}
		}
	}
	f := p.queue[0]
	p.queue = p.queue[1:]
	return f
}

// request reads one request and judges its stream id.
func (p *idsPeer) request() *frame.Frame {
	f := p.read()
	if f == nil {
		return nil
	}
	id := f.Header.StreamId
	tag, _ := tagOf(f)
	p.seen = append(p.seen, id)
	if (id < 1 || int(id) > p.n) && !strings.HasPrefix(tag, "x") { // "x..." requests carry caller-chosen ids
		p.o.Fail("C09:wire-id-out-of-range", "CqlClientConnection.Send", "request %s arrived at the peer with stream id %d; the limit is N=%d", tag, id, p.n)
	}
	if other, dup := p.outstanding[id]; dup {
		p.o.Fail("C09:wire-duplicate-id", "CqlClientConnection.Send", "request %s arrived at the peer with stream id %d while request %s with the same id is still unanswered", tag, id, other)
	}
	p.outstanding[id] = tag
	return f
}

func (p *idsPeer) write(f *frame.Frame) {
	b := envelope(f)
	if p.modern {
		b = seg(b, true, false)
	}
	_, _ = p.e.Write(b)
}

// respond writes one response page for req; final pages retire the id. On a v5 connection every
// third response is larger than one segment and is cut over several non-self-contained segments,
// each time with a different total length.
func (p *idsPeer) respond(req *frame.Frame, page int, final bool) {
	tag, _ := tagOf(req)
	f := pageFor(p.v, req.Header.StreamId, fmt.Sprintf("%s#%d", tag, page), page, final)
	p.responses++
	if bodyless(p.v, tag) {
		// a response without a body (READY: exactly one header long), alone in its segment on v5
		p.write(frame.NewFrame(p.v, req.Header.StreamId, &message.Ready{}))
		delete(p.outstanding, req.Header.StreamId)
		return
	}
	if p.modern && p.responses%3 == 1 {
		size := 135000 + 1777*p.responses
		f.Body.Message.(*message.RowsResult).Data[0] = message.Row{gen.Payload(size, "text")}
		env := envelope(f)
		var parts []int
		for rem := len(env); rem > 0; rem -= refseg.MaxPayload {
			if rem > refseg.MaxPayload {
				parts = append(parts, refseg.MaxPayload)
			} else {
				parts = append(parts, rem)
			}
		}
		writeSplit(p.e, env, parts, false)
	} else {
		p.write(f)
	}
	if final {
		delete(p.outstanding, req.Header.StreamId)
	}
}

// bodyless: the second request of sender 0 is answered with READY on every non-DSE version.
func bodyless(v primitive.ProtocolVersion, tag string) bool { return tag == "w2-0" && !dse(v) }

func dse(v primitive.ProtocolVersion) bool {
	return v == primitive.ProtocolVersionDse1 || v == primitive.ProtocolVersionDse2
}

// pageFor builds a Rows response tagged in its paging state. On DSE versions it is a continuous
// page (page number, last flag); elsewhere every response is final.
func pageFor(v primitive.ProtocolVersion, id int16, tag string, page int, final bool) *frame.Frame {
	md := &message.RowsMetadata{ColumnCount: 1, PagingState: []byte(tag)}
	data := message.RowSet{{[]byte("x")}}
	if dse(v) {
		md.ContinuousPageNumber = int32(page)
		md.LastContinuousPage = final
		if page%2 == 1 {
			// odd continuous pages carry no paging state, final or not (the last page is the one that says
			// so); their tag travels in a second row (tagOf)
			md.PagingState = nil
			data = append(data, message.Row{[]byte(tag)})
		}
	}
	return frame.NewFrame(v, id, &message.RowsResult{Metadata: md, Data: data})
}

func queryV(v primitive.ProtocolVersion, tag string) *frame.Frame {
	return frame.NewFrame(v, 0, &message.Query{Query: tag, Options: &message.QueryOptions{Consistency: primitive.ConsistencyLevelOne}})
}

func permOf(k, idx int) []int {
	items := make([]int, k)
	for i := range items {
		items[i] = i
	}
	var out []int
	for n := k; n > 0; n-- {
		f := 1
		for i := 2; i < n; i++ {
			f *= i
		}
		j := idx / f
		idx %= f
		out = append(out, items[j])
		items = append(items[:j], items[j+1:]...)
	}
	return out
}

func factorial(k int) int {
	f := 1
	for i := 2; i <= k; i++ {
		f *= i
	}
	return f
}

// collect receives frames of a request until its channel is closed.
func collect(r client.InFlightRequest) []string {
	var tags []string
	for {
		f, ok := Recv(r)
		if !ok {
			return tags
		}
		t, data := tagOf(f)
		if _, isReady := f.Body.Message.(*message.Ready); isReady {
			t = "READY"
		}
		if len(data) > 1 && !bytes.Equal(data, gen.Payload(len(data), "text")) {
			t += "!corrupt" // a response reassembled from several segments must carry what the peer sent
		}
		tags = append(tags, t)
	}
}

type IdsOpts struct {
	V      primitive.ProtocolVersion
	N, K   int
	Extras bool // an EVENT and a response for an unknown id are interleaved
	Pages  int  // >1 (DSE only): the first answered request gets that many pages, the last one after all other responses
}

// IdsHarness (Arg = index of the answer permutation, 0..K!-1): K sender threads, each sending two
// requests one after the other with automatic ids (K <= N, so every send must be accepted); the
// peer waits for all K first requests, answers them in the chosen order, then waits for the K
// second requests and answers them in the opposite order.
func IdsHarness(name string, op IdsOpts, bound int) *explore.Harness {
	h := &explore.Harness{Name: name, Cost: "delay", Bound: bound, Param: fmt.Sprintf("%v N=%d senders=%d extras=%v pages=%d", op.V, op.N, op.K, op.Extras, op.Pages)}
	h.Body = func(o *explore.Obs) {
		perm := permOf(op.K, explore.CurrentArg%factorial(op.K))
		ctx, cancel := vctx.WithCancel(vctx.Background())
		defer cancel()
		ce, se := vnet.Pipe()
		handlerEvents := 0
		cc, err := client.VNewClientConn(ce, ctx, nil, primitive.CompressionNone, op.N, op.Pages+1, 10*time.Second, []client.EventHandler{func(ev *frame.Frame, _ *client.CqlClientConnection) { handlerEvents++ }})
		if err != nil {
			o.Fail("setup", "VNewClientConn", "%v", err)
			return
		}
		p := &idsPeer{v: op.V, e: se, o: o, n: op.N, outstanding: map[int16]string{}}
		peerDone := false
		sched.GoNamed("raw-peer", func() {
			defer func() { peerDone = true }()
			st := p.read()
			if st == nil {
				return
			}
			p.write(frame.NewFrame(op.V, st.Header.StreamId, &message.Ready{}))
			p.modern = op.V == primitive.ProtocolVersion5
			for wave := 1; wave <= 2; wave++ {
				reqs := map[int]*frame.Frame{}
				for len(reqs) < op.K {
					f := p.request()
					if f == nil {
						return
					}
					var w, i int
					tag, _ := tagOf(f)
					if _, err := fmt.Sscanf(tag, "w%d-%d", &w, &i); err != nil || w != wave {
						p.err = fmt.Sprintf("unexpected request %q in wave %d", tag, wave)
						return
					}
					reqs[i] = f
				}
				order := perm
				if wave == 2 {
					order = make([]int, len(perm))
					for i := range perm {
						order[len(perm)-1-i] = perm[i]
					}
				}
				paged := op.Pages > 1 && dse(op.V) && wave == 1
				for j, idx := range order {
					if op.Extras && j == 0 {
						// a response nobody asked for, then an event, ahead of the first real response
						p.write(pageFor(op.V, int16(op.N+3), "spurious#1", 1, true))
						p.write(pageFor(op.V, -7, "spurious#neg", 1, true)) // unknown and negative: still a response, not an event
						p.write(frame.NewFrame(op.V, -1, &message.StatusChangeEvent{ChangeType: primitive.StatusChangeTypeUp, Address: &primitive.Inet{Addr: []byte{10, 0, 0, 1}, Port: 9042}}))
					}
					if paged && j == 0 {
						for pg := 1; pg < op.Pages; pg++ {
							p.respond(reqs[idx], pg, false)
						}
						continue
					}
					p.respond(reqs[idx], 1, true)
				}
				if paged {
					p.respond(reqs[order[0]], op.Pages, true)
				}
			}
			if op.Extras {
				// two requests with caller-chosen negative ids (legal: any non-zero id), answered in reverse order
				x1, x2 := p.request(), p.request()
				if x1 == nil || x2 == nil {
					return
				}
				p.respond(x2, 1, true)
				p.respond(x1, 1, true)
			}
		})
		if err := cc.InitiateHandshake(op.V, 1); err != nil {
			o.Fail("setup", "InitiateHandshake", "%v (peer: %s)", err, p.err)
			sched.Atomic(func() { _ = cc.Close() })
			return
		}
		done := 0
		for i := 0; i < op.K; i++ {
			i := i
			sched.GoNamed(fmt.Sprintf("sender-%d", i), func() {
				defer func() { done++ }()
				for wave := 1; wave <= 2; wave++ {
					tag := fmt.Sprintf("w%d-%d", wave, i)
					r, err := cc.Send(queryV(op.V, tag))
					if err != nil {
						o.Fail("C09:refused-below-limit", "CqlClientConnection.Send", "%s refused although at most %d of N=%d requests can be unanswered: %v", tag, op.K-1, op.N, err)
						return
					}
					if id := r.StreamId(); id < 1 || int(id) > op.N {
						o.Fail("C09:id-out-of-range", "CqlClientConnection.Send", "%s was given stream id %d; the limit is N=%d", tag, id, op.N)
					}
					got := collect(r)
					want := []string{tag + "#1"}
					if bodyless(op.V, tag) {
						want = []string{"READY"}
					}
					if op.Pages > 1 && dse(op.V) && wave == 1 && i == perm[0] {
						want = nil
						for pg := 1; pg <= op.Pages; pg++ {
							want = append(want, fmt.Sprintf("%s#%d", tag, pg))
						}
					}
					if strings.Join(got, ",") != strings.Join(want, ",") {
						o.Fail("C10:misdelivery", "inFlightRequestsHandler.onIncomingFrameReceived", "request %s (stream id %d) received %v, expected exactly %v (err=%v)", tag, r.StreamId(), got, want, r.Err())
					}
					o.Logf("%s id=%d", tag, r.StreamId())
				}
			})
		}
		sched.Op("join-senders", 0, func() bool { return done == op.K })
		sched.Sleep(int64(time.Millisecond)) // every request of the two waves is fully retired: the window is empty again
		explicitOK := true
		if op.Extras {
			var rs []client.InFlightRequest
			lowest := int16(-32768)
			if op.V == primitive.ProtocolVersion2 {
				lowest = -128 // one-byte stream ids
			}
			for k, id := range []int16{-2, lowest} {
				f := queryV(op.V, fmt.Sprintf("x%d", k))
				f.Header.StreamId = id
				r, err := cc.Send(f)
				if err != nil {
					o.Fail("C09:explicit-id-refused", "CqlClientConnection.Send", "a request with the caller-chosen stream id %d (not in use, %d of N=%d unanswered) was refused: %v", id, len(rs), op.N, err)
					explicitOK = false
					break
				}
				if r.StreamId() != id {
					o.Fail("C09:explicit-id-changed", "CqlClientConnection.Send", "caller-chosen stream id %d became %d", id, r.StreamId())
				}
				rs = append(rs, r)
			}
			for k, r := range rs {
				if got, want := strings.Join(collect(r), ","), fmt.Sprintf("x%d#1", k); got != want {
					o.Fail("C10:misdelivery", "CqlClientConnection.processIncomingFrame", "request x%d (caller-chosen stream id %d) received [%s], expected exactly [%s] (err=%v)", k, r.StreamId(), got, want, r.Err())
				}
			}
		}
		if !explicitOK {
			sched.Atomic(func() { _ = cc.Close() })
			return
		}
		sched.Op("join", 0, func() bool { return peerDone })
		sched.Sleep(int64(time.Millisecond)) // let the incoming loop finish handling the last frames
		if p.err != "" {
			o.Fail("peer", "raw peer", "%s", p.err)
		}
		if op.Extras {
			ev := len(cc.EventChannel())
			if ev != 2 || handlerEvents != 2 {
				o.Fail("C10:event-misrouted", "CqlClientConnection.processIncomingFrame", "the peer pushed 2 events: %d are on the event channel and the handler ran %d times", ev, handlerEvents)
			}
		}
		if len(p.outstanding) != 0 {
			o.Fail("peer", "raw peer", "unanswered at the end: %v", p.outstanding)
		}
		ids := append([]int16(nil), p.seen...)
		sort.Slice(ids, func(i, j int) bool { return ids[i] < ids[j] })
		o.Logf("ids on the wire %v", ids)
		sched.Atomic(func() { _ = cc.Close() })
	}
	return h
}

// ExhaustionHarness: N+1 sender threads against a peer that answers nothing until every sender
// has tried (it sleeps on the virtual clock, which only advances when all threads are blocked).
// Exactly N sends must be accepted with distinct ids 1..N and one refused with an error, none may
// block; after the answers the refused sender tries again and must be accepted.
func ExhaustionHarness(name string, v primitive.ProtocolVersion, n int, bound int) *explore.Harness {
	h := &explore.Harness{Name: name, Cost: "delay", Bound: bound, Param: fmt.Sprintf("%v N=%d senders=%d", v, n, n+1)}
	h.Body = func(o *explore.Obs) {
		ctx, cancel := vctx.WithCancel(vctx.Background())
		defer cancel()
		ce, se := vnet.Pipe()
		cc, err := client.VNewClientConn(ce, ctx, nil, primitive.CompressionNone, n, 2, 10*time.Second, nil)
		if err != nil {
			o.Fail("setup", "VNewClientConn", "%v", err)
			return
		}
		p := &idsPeer{v: v, e: se, o: o, n: n, outstanding: map[int16]string{}}
		peerDone := false
		answered := false
		sched.GoNamed("raw-peer", func() {
			defer func() { peerDone = true }()
			st := p.read()
			if st == nil {
				return
			}
			p.write(frame.NewFrame(v, st.Header.StreamId, &message.Ready{}))
			p.modern = v == primitive.ProtocolVersion5
			var reqs []*frame.Frame
			for len(reqs) < n {
				f := p.request()
				if f == nil {
					return
				}
				reqs = append(reqs, f)
			}
			sched.Sleep(int64(time.Second)) // every sender has made its attempt by now
			answered = true
			for i := len(reqs) - 1; i >= 0; i-- {
				p.respond(reqs[i], 1, true)
			}
			f := p.request() // the retry of the refused sender
			if f != nil {
				p.respond(f, 1, true)
			}
		})
		if err := cc.InitiateHandshake(v, 1); err != nil {
			o.Fail("setup", "InitiateHandshake", "%v (peer: %s)", err, p.err)
			sched.Atomic(func() { _ = cc.Close() })
			return
		}
		done, accepted, refused, received := 0, 0, 0, 0
		for i := 0; i <= n; i++ {
			i := i
			sched.GoNamed(fmt.Sprintf("sender-%d", i), func() {
				defer func() { done++ }()
				tag := fmt.Sprintf("w1-%d", i)
				r, err := cc.Send(queryV(v, tag))
				if err != nil {
					if answered {
						o.Fail("harness", "ExhaustionHarness", "attempt after the answers")
					}
					refused++
					o.Logf("%s refused", tag)
					sched.Op("await-answers", 0, func() bool { return received == n })
					tag = fmt.Sprintf("w2-%d", i)
					r, err = cc.Send(queryV(v, tag))
					if err != nil {
						o.Fail("C09:id-not-recycled", "inFlightRequestsHandler.releaseStreamId", "all %d requests were answered, yet a new send is refused: %v", n, err)
						return
					}
				} else {
					accepted++
				}
				got := collect(r)
				received++
				wantTag := tag + "#1"
				if bodyless(v, tag) {
					wantTag = "READY"
				}
				if strings.Join(got, ",") != wantTag {
					o.Fail("C10:misdelivery", "inFlightRequestsHandler.onIncomingFrameReceived", "request %s (stream id %d) received %v (err=%v)", tag, r.StreamId(), got, r.Err())
				}
				o.Logf("%s id=%d", tag, r.StreamId())
			})
		}
		sched.Op("join", 0, func() bool { return done == n+1 && peerDone })
		if p.err != "" {
			o.Fail("peer", "raw peer", "%s", p.err)
		}
		if accepted != n || refused != 1 {
			o.Fail("C09:exhaustion", "CqlClientConnection.Send", "%d senders tried while nothing was answered and N=%d: %d accepted, %d refused (expected %d and 1)", n+1, n, accepted, refused, n)
		}
		sched.Atomic(func() { _ = cc.Close() })
	}
	return h
}

var _ = bytes.Equal

// IdsDesc describes one registered connection-level scenario of C09/C10.
type IdsDesc struct {
	Name   string
	Args   int // the harness is explored once per Arg in 0..Args-1 (answer permutations)
	QB, TB int // delay bound in the quick / thorough tier
	Quick  bool
}

// RegisterIds registers the connection-level scenarios and returns their descriptions.
func RegisterIds() []IdsDesc {
	var ds []IdsDesc
	add := func(h *explore.Harness, args, qb, tb int, quick bool) {
		explore.Register(h)
		ds = append(ds, IdsDesc{h.Name, args, qb, tb, quick})
	}
	for _, v := range gen.Versions {
		vn := fmt.Sprintf("%v", v)
		// every answer order of 2 and 3 outstanding requests, default schedule, every version
		add(IdsHarness("ids/"+vn+"/k2", IdsOpts{V: v, N: 2, K: 2, Extras: true, Pages: 2}, 0), 2, 0, 1, true)
		add(IdsHarness("ids/"+vn+"/k3", IdsOpts{V: v, N: 3, K: 3, Extras: true, Pages: 3}, 0), 6, 0, 1, true)
		add(ExhaustionHarness("ids-exhaustion/"+vn+"/N1", v, 1, 0), 1, 0, 1, true)
		add(ExhaustionHarness("ids-exhaustion/"+vn+"/N2", v, 2, 0), 1, 0, 1, false)
	}
	// schedule exploration on the three wire layouts: legacy frames, v5 segments, DSE continuous paging
	for _, v := range []primitive.ProtocolVersion{primitive.ProtocolVersion4, primitive.ProtocolVersion5, primitive.ProtocolVersionDse2} {
		vn := fmt.Sprintf("%v", v)
		add(IdsHarness("ids-sched/"+vn+"/k2", IdsOpts{V: v, N: 2, K: 2, Extras: true, Pages: 2}, 1), 2, 1, 2, true)
		add(IdsHarness("ids-sched/"+vn+"/k2-N3", IdsOpts{V: v, N: 3, K: 2, Extras: false, Pages: 1}, 1), 2, 1, 2, false)
		add(ExhaustionHarness("ids-exhaustion-sched/"+vn+"/N1", v, 1, 1), 1, 1, 2, true)
	}
	return ds
}
