package hconn

import (
	"fmt"
	"time"

	"github.com/datastax/go-cassandra-native-protocol/client"
	"github.com/datastax/go-cassandra-native-protocol/frame"
	"github.com/datastax/go-cassandra-native-protocol/message"
	"github.com/datastax/go-cassandra-native-protocol/primitive"
	"github.com/datastax/go-cassandra-native-protocol/verifrt/sched"
	"github.com/datastax/go-cassandra-native-protocol/verifrt/vctx"

	"verif/engine/explore"
)

// ServerHarness: the real CqlServer (listener, accept loop, connection handler) and CqlClients over
// the in-memory network. Script: start the server; nclients clients, one after the other: Connect,
// Accept (by client, or AcceptAny when any is set), handshake, one request answered by the server
// side, and - when closeEach is set - the client connection closed before the next client
// connects. A fault (server-close: CqlServer.Close; cancel: the context the server was started
// with) is released at scheduling point Arg (Arg < 0: none). At the end the harness closes what is
// still open; every Close must return, nothing may panic, and no thread of the server or of a
// connection may survive.
func ServerHarness(name, fault string, nclients, maxConn int, any, closeEach, handlers bool, bound int) *explore.Harness {
	const v = primitive.ProtocolVersion4
	return &explore.Harness{Name: name, Cost: "delay", Bound: bound, Param: fmt.Sprintf("v4 fault=%s clients=%d maxConnections=%d acceptAny=%v closeEach=%v handlers=%v", fault, nclients, maxConn, any, closeEach, handlers), Body: func(o *explore.Obs) {
		ctx, cancel := vctx.WithCancel(vctx.Background())
		srv := client.NewCqlServer("127.0.0.1:9042", nil)
		srv.MaxConnections = maxConn
		srv.MaxInFlight = 4
		srv.AcceptTimeout = 5 * time.Second
		if handlers {
			// the server answers by itself: handshake and heartbeat handlers of the library plus one that answers queries;
			// every handled request runs in a goroutine of the connection
			srv.RequestHandlers = []client.RequestHandler{client.HandshakeHandler, client.HeartbeatHandler, func(req *frame.Frame, _ *client.CqlServerConnection, _ client.RequestHandlerContext) *frame.Frame {
				if _, ok := req.Body.Message.(*message.Query); ok {
					return frame.NewFrame(req.Header.Version, req.Header.StreamId, &message.VoidResult{})
				}
				return nil
			}}
		}
		if err := srv.Start(ctx); err != nil {
			o.Fail("C16:setup", "CqlServer.Start", "%v", err)
			cancel()
			return
		}
		at := explore.CurrentArg
		faultDone := at < 0
		withdraw := func() bool { return false }
		if at >= 0 {
			withdraw = sched.GoForcedOrSkip("fault:"+fault, at, func() {
				switch fault {
				case "server-close":
					_ = srv.Close()
				case "cancel":
					cancel()
				}
				faultDone = true
			})
		}
		var conns []*client.CqlClientConnection
		var sconns []*client.CqlServerConnection
		served := 0
		scriptDone := false
		sched.GoNamed("clients", func() {
			defer func() { scriptDone = true }()
			for i := 0; i < nclients; i++ {
				cl := client.NewCqlClient("127.0.0.1:9042", nil)
				cl.MaxInFlight = 4
				cl.ReadTimeout = 10 * time.Second
				cc, err := cl.Connect(ctx)
				if err != nil {
					o.Logf("client %d: connect: refused", i)
					if at < 0 {
						o.Fail("C16:no-fault-incomplete", "CqlClient.Connect", "client %d cannot connect without any fault: %v", i, err)
					}
					return
				}
				conns = append(conns, cc)
				var sc *client.CqlServerConnection
				if any {
					sc, err = srv.AcceptAny()
				} else {
					sc, err = srv.Accept(cc)
				}
				if err != nil {
					o.Logf("client %d: not accepted", i)
					if at < 0 {
						o.Fail("C16:no-fault-incomplete", "CqlServer.Accept", "client %d is not accepted without any fault: %v", i, err)
					}
					return
				}
				sconns = append(sconns, sc)
				srvDone := handlers
				if !handlers {
					sched.GoNamed(fmt.Sprintf("server-side-%d", i), func() {
						defer func() { srvDone = true }()
						if err := sc.AcceptHandshake(); err != nil {
							return
						}
						req, err := sc.Receive()
						if err != nil {
							return
						}
						_ = sc.Send(frame.NewFrame(v, req.Header.StreamId, &message.VoidResult{}))
					})
				}
				ok := false
				if err := cc.InitiateHandshake(v, 0); err == nil {
					if r, err := cc.Send(frame.NewFrame(v, 0, &message.Query{Query: fmt.Sprintf("q%d", i), Options: &message.QueryOptions{Consistency: primitive.ConsistencyLevelOne}})); err == nil {
						if f, _ := cc.Receive(r); f != nil {
							ok = true
							served++
						}
						if !r.IsDone() {
							// Receive returned: either the response (done) or a failure that must have completed the request
							sched.Sleep(int64(time.Millisecond))
							if !r.IsDone() {
								o.Fail("C16:request-not-completed", "inFlightRequest.close", "client %d: Receive returned but the request is not done", i)
							}
						}
					}
				}
				sched.Op("srv-join", 0, func() bool { return srvDone })
				if at < 0 && !ok {
					o.Fail("C16:no-fault-incomplete", "session", "client %d got no response without any fault", i)
				}
				if closeEach {
					_ = cc.Close()
					// the server notices the loss of its peer and closes its side (C16: "or losing the TCP peer");
					// only then is the slot of this client free again
					sched.Op("await-server-side-close", 0, func() bool { return sc.IsClosed() })
					sched.Sleep(int64(time.Millisecond))
				}
			}
		})
		sched.Op("join", 0, func() bool { return scriptDone })
		if withdraw() {
			faultDone = true // the script ended before the fault position: nothing to inject in this run
		}
		sched.Op("join-fault", 0, func() bool { return faultDone })
		sched.Sleep(int64(time.Millisecond))
		// everything is closed by the harness now; each Close must return (a Close that blocks shows up as a deadlock)
		for _, cc := range conns {
			_ = cc.Close()
		}
		_ = srv.Close()
		cancel()
		sched.Sleep(int64(time.Millisecond))
		sched.Atomic(func() {
			if !srv.IsClosed() {
				o.Fail("C16:server-not-closed", "CqlServer.Close", "the server is not closed after Close returned")
			}
			for i, sc := range sconns {
				if !sc.IsClosed() {
					o.Fail("C16:server-connection-open", "clientConnectionHandler.close", "server connection %d is still open after the server was closed", i)
				}
			}
			if _, err := srv.AcceptAny(); err == nil {
				o.Fail("C16:accept-after-close", "CqlServer.AcceptAny", "AcceptAny succeeded on a closed server")
			}
			o.Logf("served=%d of %d", served, nclients)
		})
	}}
}

// ServerDesc describes one registered server-level scenario.
type ServerDesc struct {
	Name   string
	QB, TB int
	Quick  bool
}

// RegisterServer registers the server-level scenarios of C16.
func RegisterServer() []ServerDesc {
	var ds []ServerDesc
	add := func(h *explore.Harness, qb, tb int, quick bool) {
		explore.Register(h)
		ds = append(ds, ServerDesc{h.Name, qb, tb, quick})
	}
	for _, fault := range []string{"server-close", "cancel"} {
		add(ServerHarness("server/"+fault+"/1client", fault, 1, 2, false, false, false, 0), 1, 2, true)
		add(ServerHarness("server/"+fault+"/2clients", fault, 2, 2, false, false, false, 0), 0, 1, true)
		add(ServerHarness("server/"+fault+"/2clients-any", fault, 2, 2, true, false, false, 0), 0, 1, false)
		// more connections over the life of the server than MaxConnections, each closed before the next
		add(ServerHarness("server/"+fault+"/3clients-max1", fault, 3, 1, false, true, false, 0), 0, 1, true)
		// the server answers through its request handlers (one goroutine of the connection per handled request)
		add(ServerHarness("server/"+fault+"/2clients-handlers", fault, 2, 2, false, false, true, 0), 0, 1, true)
	}
	return ds
}
