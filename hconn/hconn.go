// Package hconn holds the connection-level harnesses: the real CqlClientConnection and
// CqlServerConnection (and CqlServer) over the in-memory network of rt/vnet, under the controlled
// scheduler. Used by C09/C10 (wire-level ids and delivery), C15 (exchange fidelity, wire
// conformance, raw peers) and C16 (fault enumeration).
package hconn

import (
	"bytes"
	"fmt"
	"time"

	"github.com/datastax/go-cassandra-native-protocol/client"
	"github.com/datastax/go-cassandra-native-protocol/frame"
	"github.com/datastax/go-cassandra-native-protocol/message"
	"github.com/datastax/go-cassandra-native-protocol/primitive"
	"github.com/datastax/go-cassandra-native-protocol/segment"
	"github.com/datastax/go-cassandra-native-protocol/verifrt/sched"
	"github.com/datastax/go-cassandra-native-protocol/verifrt/vchan"
	"github.com/datastax/go-cassandra-native-protocol/verifrt/vctx"
	"github.com/datastax/go-cassandra-native-protocol/verifrt/vnet"
	"github.com/rs/zerolog"

	"verif/engine/explore"
	"verif/fcheck"
	"verif/gen"
	"verif/ref/refseg"
)

func init() { zerolog.SetGlobalLevel(zerolog.Disabled) }

// Cfg is one connection configuration.
type Cfg struct {
	Version     primitive.ProtocolVersion
	Compression primitive.Compression
	Auth        bool
	MaxInFlight int
	MaxPending  int
	ReadTimeout time.Duration
}

func (c Cfg) String() string {
	return fmt.Sprintf("%v/%s/auth=%v", c.Version, c.Compression, c.Auth)
}

func (c Cfg) creds() *client.AuthCredentials {
	if c.Auth {
		return &client.AuthCredentials{Username: "u", Password: "p"}
	}
	return nil
}

func (c Cfg) defaults() Cfg {
	if c.MaxInFlight == 0 {
		c.MaxInFlight = 4
	}
	if c.MaxPending == 0 {
		c.MaxPending = 2
	}
	if c.ReadTimeout == 0 {
		c.ReadTimeout = 10 * time.Second
	}
	if c.Compression == "" {
		c.Compression = primitive.CompressionNone
	}
	return c
}

// Wire records the bytes written by each end of a pipe.
type Wire struct {
	ClientOut, ServerOut bytes.Buffer
}

// Pair builds a client and a server connection over a fresh pipe.
type PairT struct {
	Cfg        Cfg
	Ctx        vctx.Context
	Cancel     vctx.CancelFunc
	C          *client.CqlClientConnection
	S          *client.CqlServerConnection
	CEnd, SEnd *vnet.End
	Wire       *Wire
}

func NewPair(cfg Cfg, handlers []client.RequestHandler) (*PairT, error) {
	cfg = cfg.defaults()
	ctx, cancel := vctx.WithCancel(vctx.Background())
	ce, se := vnet.Pipe()
	w := &Wire{}
	vnet.Capture = func(e *vnet.End, p []byte) {
		if e == ce {
			w.ClientOut.Write(p)
		} else if e == se {
			w.ServerOut.Write(p)
		}
	}
	cc, err := client.VNewClientConn(ce, ctx, cfg.creds(), cfg.Compression, cfg.MaxInFlight, cfg.MaxPending, cfg.ReadTimeout, nil)
	if err != nil {
		cancel()
		return nil, err
	}
	sc, err := client.VNewServerConn(se, ctx, cfg.creds(), cfg.MaxInFlight, time.Hour, handlers, nil, nil)
	if err != nil {
		cancel()
		return nil, err
	}
	return &PairT{cfg, ctx, cancel, cc, sc, ce, se, w}, nil
}

// Close closes both connections and the context.
func (p *PairT) Close() {
	_ = p.C.Close()
	_ = p.S.Close()
	p.Cancel()
}

// Recv waits for the next frame of an in-flight request under the scheduler.
func Recv(req client.InFlightRequest) (*frame.Frame, bool) {
	ch := req.Incoming()
	sched.Op("hrecv", 0, func() bool { return len(ch) > 0 || vchan.IsClosed(ch) })
	if len(ch) > 0 {
		return <-ch, true
	}
	return nil, false
}

var ignore = map[string]bool{"Header.BodyLength": true, "ColumnMetadata.Index": true, "Header.Flags": true, "Header.StreamId": true}

// ExchangeHarness: handshake, then every request of reqs is sent by the client and must be
// received equal by the server, which answers with the matching response that must reach the
// matching client request equal. Wire bytes are checked against the framing rules of the version.
func ExchangeHarness(name string, cfg Cfg, pairs [][2]*frame.Frame, bound int) *explore.Harness {
	cfg = cfg.defaults()
	return &explore.Harness{Name: name, Cost: "delay", Bound: bound, Param: cfg.String(), Body: func(o *explore.Obs) {
		p, err := NewPair(cfg, nil)
		if err != nil {
			o.Fail("C15:setup", "NewPair", "%v", err)
			return
		}
		if err := client.PerformHandshake(p.C, p.S, cfg.Version, 1); err != nil {
			o.Fail("C15:handshake-failed", "PerformHandshake", "%s: %v", cfg, err)
			sched.Atomic(p.Close)
			return
		}
		hsClient, hsServer := p.Wire.ClientOut.Len(), p.Wire.ServerOut.Len()
		for i, pr := range pairs {
			req := gen.Clone(pr[0]).(*frame.Frame)
			wantReq := gen.Clone(pr[0]).(*frame.Frame)
			req.Header.StreamId = 0
			if modern(cfg.Version) && i%2 == 1 && fcheck.Compressible(req) {
				// the application flagged the envelope itself (Frame.SetCompress): inside segments envelopes are
				// never compressed individually, with or without a negotiated compression
				req.Header.Flags = req.Header.Flags.Add(primitive.HeaderFlagCompressed)
			}
			infl, err := p.C.Send(req)
			if err != nil {
				o.Fail("C15:send-refused", "CqlClientConnection.Send", "pair %d: %v", i, err)
				break
			}
			got, err := p.S.Receive()
			if err != nil {
				o.Fail("C15:server-receive", "CqlServerConnection.Receive", "pair %d: %v", i, err)
				break
			}
			if d := gen.Equal(wantReq, got, ignore); d != "" {
				o.Fail("C15:request-altered", "client->server", "pair %d (%s): server received a different request: %s", i, msgName(wantReq), d)
			}
			if got.Header.StreamId != infl.StreamId() {
				o.Fail("C15:stream-id-altered", "client->server", "pair %d: sent on stream %d, received on %d", i, infl.StreamId(), got.Header.StreamId)
			}
			resp := gen.Clone(pr[1]).(*frame.Frame)
			wantResp := gen.Clone(pr[1]).(*frame.Frame)
			resp.Header.StreamId = got.Header.StreamId
			if modern(cfg.Version) && i%2 == 1 && fcheck.Compressible(resp) {
				resp.Header.Flags = resp.Header.Flags.Add(primitive.HeaderFlagCompressed)
			}
			if err := p.S.Send(resp); err != nil {
				o.Fail("C15:server-send", "CqlServerConnection.Send", "pair %d: %v", i, err)
				break
			}
			back, ok := Recv(infl)
			if !ok {
				o.Fail("C15:response-lost", "server->client", "pair %d (%s): request completed without its response: %v", i, msgName(wantResp), infl.Err())
				break
			}
			if d := gen.Equal(wantResp, back, ignore); d != "" {
				o.Fail("C15:response-altered", "server->client", "pair %d (%s): client received a different response: %s", i, msgName(wantResp), d)
			}
			o.Logf("pair %d ok", i)
		}
		// a server-pushed event (stream id -1) travels the same connection and must reach the event channel intact
		ev := frame.NewFrame(cfg.Version, -1, &message.SchemaChangeEvent{ChangeType: primitive.SchemaChangeTypeCreated, Target: primitive.SchemaChangeTargetKeyspace, Keyspace: "ks1"})
		wantEv := gen.Clone(ev).(*frame.Frame)
		if err := p.S.Send(ev); err != nil {
			o.Fail("C15:server-send", "CqlServerConnection.Send", "event: %v", err)
		} else if got, err := p.C.ReceiveEvent(); err != nil {
			o.Fail("C15:event-lost", "CqlClientConnection.ReceiveEvent", "the event pushed by the server did not arrive: %v", err)
		} else if d := gen.Equal(wantEv, got, ignore); d != "" {
			o.Fail("C15:event-altered", "server->client", "client received a different event: %s", d)
		}
		sched.Atomic(func() {
			checkWire(o, cfg, "client", p.Wire.ClientOut.Bytes(), hsClient)
			checkWire(o, cfg, "server", p.Wire.ServerOut.Bytes(), hsServer)
			p.Close()
		})
	}}
}

func msgName(f *frame.Frame) string { return fmt.Sprintf("%T", f.Body.Message) }

func modern(v primitive.ProtocolVersion) bool { return v == primitive.ProtocolVersion5 }

// checkWire verifies the framing of everything one side wrote: the first hs bytes (handshake up to
// and including STARTUP resp. READY/AUTHENTICATE) unframed; for v5 everything after that inside
// valid segments whose envelopes are not individually compressed; for the other versions plain
// frames, compressed iff a compression was negotiated.
func checkWire(o *explore.Obs, cfg Cfg, side string, b []byte, hs int) {
	raw := frame.NewRawCodec()
	// the unframed prefix: for v5 only the first frame of each side (STARTUP / READY or AUTHENTICATE)
	r := bytes.NewReader(b)
	_, err := raw.DecodeRawFrame(r)
	if err != nil {
		o.Fail("C15:wire-handshake", side, "%s: first bytes on the wire are not an unframed envelope: %v", cfg, err)
		return
	}
	if !modern(cfg.Version) {
		for r.Len() > 0 {
			f, err := raw.DecodeRawFrame(r)
			if err != nil {
				o.Fail("C15:wire-legacy", side, "%s: bytes after the handshake are not a sequence of envelopes: %v", cfg, err)
				return
			}
			_ = f
		}
		return
	}
	var sc segment.Codec
	if cfg.Compression == primitive.CompressionLz4 {
		sc = segment.NewCodecWithCompression(client.NewPayloadCompressor(cfg.Compression))
	} else {
		sc = segment.NewCodec()
	}
	rest := b[len(b)-r.Len():]
	for len(rest) > 0 {
		// independent parse of the segment header
		hl := 6
		var n int
		var selfContained bool
		if cfg.Compression == primitive.CompressionLz4 {
			hl = 8
			if len(rest) < hl {
				o.Fail("C15:wire-segment", side, "%s: %d trailing bytes are not a segment", cfg, len(rest))
				return
			}
			cl, ul, flag, crc, pad := refseg.ParseCompressedHeader(rest)
			n, selfContained = cl, flag
			if want := refseg.HeaderCompressed(cl, ul, flag); !bytes.Equal(want, rest[:8]) || pad != 0 {
				o.Fail("C15:wire-segment-header", side, "%s: segment header %x (crc %06x) does not follow the v5 layout", cfg, rest[:8], crc)
				return
			}
		} else {
			if len(rest) < hl {
				o.Fail("C15:wire-segment", side, "%s: %d trailing bytes are not a segment", cfg, len(rest))
				return
			}
			v := uint64(rest[0]) | uint64(rest[1])<<8 | uint64(rest[2])<<16
			n, selfContained = int(v&0x1FFFF), (v>>17)&1 == 1
			if want := refseg.HeaderUncompressed(n, selfContained); !bytes.Equal(want, rest[:6]) {
				o.Fail("C15:wire-segment-header", side, "%s: segment header %x does not follow the v5 layout", cfg, rest[:6])
				return
			}
		}
		if len(rest) < hl+n+4 {
			o.Fail("C15:wire-segment", side, "%s: truncated segment (%d payload bytes declared, %d available)", cfg, n, len(rest)-hl-4)
			return
		}
		seg, err := sc.DecodeSegment(bytes.NewReader(rest[:hl+n+4]))
		if err != nil {
			o.Fail("C15:wire-segment", side, "%s: segment on the wire does not decode: %v", cfg, err)
			return
		}
		if selfContained {
			pr := bytes.NewReader(seg.Payload.UncompressedData)
			for pr.Len() > 0 {
				f, err := raw.DecodeRawFrame(pr)
				if err != nil {
					o.Fail("C15:wire-envelope", side, "%s: payload of a self-contained segment is not a sequence of envelopes: %v", cfg, err)
					return
				}
				if f.Header.Flags.Contains(primitive.HeaderFlagCompressed) {
					o.Fail("C15:wire-envelope-compressed", side, "%s: envelope %v inside a segment carries the per-envelope compression flag", cfg, f.Header.OpCode)
					return
				}
			}
		}
		rest = rest[hl+n+4:]
	}
}

// Pairs returns request/response pairs for a version: a few representative post-handshake frames
// drawn from the base messages of the frame grammar (all of them in thorough mode).
func Pairs(v primitive.ProtocolVersion, all bool) [][2]*frame.Frame {
	var reqs, resps []*frame.Frame
	for _, b := range gen.BasesPublic(v) {
		f := frame.NewFrame(v, 1, gen.Clone(b.Msg).(message.Message))
		if !gen.Valid(f) {
			continue
		}
		switch b.Msg.(type) {
		case *message.Startup, *message.AuthResponse, *message.Ready, *message.Authenticate, *message.AuthChallenge, *message.AuthSuccess:
			continue // handshake messages would disturb the connection state
		}
		if e, ok := b.Msg.(message.Error); ok && e.GetErrorCode().IsFatalError() {
			continue // makes the client close the connection by design
		}
		if _, isEvent := b.Msg.(*message.SchemaChangeEvent); isEvent {
			continue
		}
		if b.Msg.GetOpCode() == primitive.OpCodeEvent {
			continue
		}
		if b.Msg.IsResponse() {
			resps = append(resps, f)
		} else {
			reqs = append(reqs, f)
		}
	}
	var out [][2]*frame.Frame
	// envelopes without a body in both directions (exactly one header long): OPTIONS -> SUPPORTED, REGISTER -> READY
	out = append(out,
		[2]*frame.Frame{frame.NewFrame(v, 1, &message.Options{}), frame.NewFrame(v, 1, &message.Supported{Options: map[string][]string{"CQL_VERSION": {"3.0.0"}}})},
		[2]*frame.Frame{frame.NewFrame(v, 1, &message.Register{EventTypes: []primitive.EventType{primitive.EventTypeSchemaChange}}), frame.NewFrame(v, 1, &message.Ready{})})
	n := len(resps)
	if len(reqs) > n {
		n = len(reqs)
	}
	if !all && n > 6 {
		n = 6
	}
	for i := 0; i < n; i++ {
		out = append(out, [2]*frame.Frame{reqs[i%len(reqs)], resps[(i*7)%len(resps)]})
	}
	return out
}
