package hconn

import (
	"bytes"
	"fmt"
	"io"
	"time"

	"github.com/datastax/go-cassandra-native-protocol/client"
	"github.com/datastax/go-cassandra-native-protocol/frame"
	"github.com/datastax/go-cassandra-native-protocol/message"
	"github.com/datastax/go-cassandra-native-protocol/primitive"
	"github.com/datastax/go-cassandra-native-protocol/verifrt/sched"
	"github.com/datastax/go-cassandra-native-protocol/verifrt/vctx"
	"github.com/datastax/go-cassandra-native-protocol/verifrt/vnet"
	plz4 "github.com/pierrec/lz4/v4"

	"verif/engine/explore"
	"verif/gen"
	"verif/ref/refseg"
)

const v5 = primitive.ProtocolVersion5

// envelope encodes a frame without compression (the library's frame encoder is checked by C01/C02;
// the segment layer below is the independent reference).
func envelope(f *frame.Frame) []byte {
	buf := &bytes.Buffer{}
	if err := frame.NewCodec().EncodeFrame(f, buf); err != nil {
		panic(err)
	}
	return buf.Bytes()
}

// seg wraps a payload in one reference-encoded segment for a connection with or without LZ4.
func seg(payload []byte, selfContained bool, lz4 bool) []byte {
	if !lz4 {
		return refseg.Uncompressed(payload, selfContained)
	}
	if len(payload) > 0 {
		cb := make([]byte, plz4.CompressBlockBound(len(payload)))
		if n, err := plz4.CompressBlock(payload, cb, nil); err == nil && n > 0 && n < len(payload) {
			return refseg.Compressed(cb[:n], len(payload), selfContained)
		}
	}
	return refseg.Compressed(payload, 0, selfContained)
}

// readEnvelopes reads self-contained segments written by the library until n envelopes were seen.
func readEnvelopes(e *vnet.End, lz4 bool, n int) ([]*frame.Frame, error) {
	var out []*frame.Frame
	raw := frame.NewCodec()
	for len(out) < n {
		hl := 6
		if lz4 {
			hl = 8
		}
		hdr := make([]byte, hl)
		if _, err := io.ReadFull(e, hdr); err != nil {
			return out, err
		}
		var plen, ulen int
		if lz4 {
			plen, ulen, _, _, _ = refseg.ParseCompressedHeader(hdr)
		} else {
			plen = int(uint64(hdr[0])|uint64(hdr[1])<<8|uint64(hdr[2])<<16) & 0x1FFFF
		}
		body := make([]byte, plen+4)
		if _, err := io.ReadFull(e, body); err != nil {
			return out, err
		}
		payload := body[:plen]
		if lz4 && ulen != 0 {
			dst := make([]byte, ulen)
			m, err := plz4.UncompressBlock(payload, dst)
			if err != nil {
				return out, err
			}
			payload = dst[:m]
		}
		r := bytes.NewReader(payload)
		for r.Len() > 0 {
			f, err := raw.DecodeFrame(r)
			if err != nil {
				return out, err
			}
			out = append(out, f)
		}
	}
	return out, nil
}

func query(tag string, size int) *frame.Frame {
	return frame.NewFrame(v5, 0, &message.Query{Query: tag, Options: &message.QueryOptions{Consistency: primitive.ConsistencyLevelOne, PositionalValues: []*primitive.Value{{Type: primitive.ValueTypeRegular, Contents: gen.Payload(size, "text")}}}})
}

func respFor(tag string, streamId int16, size int) *frame.Frame {
	return frame.NewFrame(v5, streamId, &message.RowsResult{Metadata: &message.RowsMetadata{ColumnCount: 1, PagingState: []byte(tag)}, Data: message.RowSet{{gen.Payload(size, "text")}}})
}

func tagOf(f *frame.Frame) (string, []byte) {
	switch m := f.Body.Message.(type) {
	case *message.RowsResult:
		if len(m.Metadata.PagingState) == 0 && len(m.Data) == 2 && len(m.Data[0]) == 1 && len(m.Data[1]) == 1 {
			return string(m.Data[1][0]), m.Data[0][0] // page without paging state (ids.go pageFor)
		}
		if len(m.Data) == 1 && len(m.Data[0]) == 1 {
			return string(m.Metadata.PagingState), m.Data[0][0]
		}
		return string(m.Metadata.PagingState), nil
	case *message.Query:
		if len(m.Options.PositionalValues) == 1 {
			return m.Query, m.Options.PositionalValues[0].Contents
		}
		return m.Query, nil
	}
	return fmt.Sprintf("%T", f.Body.Message), nil
}

// splits of an envelope of length n: every 2-part split at a point >= 9 (the envelope header must
// be in the first part), some 3-part splits; for large envelopes splits at segment-size boundaries.
func splits(n int) [][]int {
	var out [][]int
	if n <= 400 {
		for p := 9; p < n; p++ {
			out = append(out, []int{p, n - p})
		}
		for p := 9; p+2 < n; p += 7 {
			out = append(out, []int{p, 1, n - p - 1})
		}
		return out
	}
	const m = refseg.MaxPayload
	add := func(parts ...int) {
		sum := 0
		for _, x := range parts {
			if x <= 0 || x > m {
				return
			}
			sum += x
		}
		if sum == n {
			out = append(out, parts)
		}
	}
	var maximal []int
	for rem := n; rem > 0; rem -= m {
		if rem > m {
			maximal = append(maximal, m)
		} else {
			maximal = append(maximal, rem)
		}
	}
	out = append(out, maximal)
	if n <= 2*m {
		add(9, n-9)
		add(n-m, m)
		add(m-1, n-m+1)
		add(n/2, n-n/2)
	} else {
		add(9, m, n-9-m)
		add(m, m-1, n-2*m+1)
		add(n-2*m, m, m)
	}
	return out
}

// vary gives split k its own payload size (size+0/1/2) so that consecutive multi-segment envelopes
// on one connection differ in total length, and the cut list adjusted to the longer envelope.
func vary(size int, parts []int, k int) (int, []int) {
	d := k % 3
	out := append([]int{}, parts...)
	for i := len(out) - 1; i >= 0 && d > 0; i-- {
		if out[i]+d <= refseg.MaxPayload {
			out[i] += d
			return size + d, out
		}
	}
	return size, out
}

// writeSplit writes env as non-self-contained segments cut according to parts.
func writeSplit(e *vnet.End, env []byte, parts []int, lz4 bool) {
	off := 0
	for _, n := range parts {
		_, _ = e.Write(seg(env[off:off+n], false, lz4))
		off += n
	}
}

func compOf(lz4 bool) primitive.Compression {
	if lz4 {
		return primitive.CompressionLz4
	}
	return primitive.CompressionNone
}

// rawServerHarness: the real client against a raw, specification-following v5 server peer:
// (1) three pipelined requests answered in ONE self-contained segment (in reverse order);
// (2) for every split of the response envelope: one request whose response arrives cut into
// non-self-contained segments.
func rawServerHarness(name string, lz4 bool, size int, maxSplits int, bound int) *explore.Harness {
	return &explore.Harness{Name: name, Cost: "delay", Bound: bound, Param: fmt.Sprintf("v5 lz4=%v response payload %d bytes", lz4, size), Body: func(o *explore.Obs) {
		ctx, cancel := vctx.WithCancel(vctx.Background())
		defer cancel()
		ce, se := vnet.Pipe()
		cc, err := client.VNewClientConn(ce, ctx, nil, compOf(lz4), 8, 2, 10*time.Second, nil)
		if err != nil {
			o.Fail("C15:setup", "VNewClientConn", "%v", err)
			return
		}
		sp := splits(len(envelope(respFor("split-000", 1, size))))
		if maxSplits > 0 && len(sp) > maxSplits {
			sp = sp[:maxSplits]
		}
		peerErr := ""
		peerDone := false
		sched.GoNamed("raw-server", func() {
			defer func() { peerDone = true }()
			st, err := frame.NewCodec().DecodeFrame(se)
			if err != nil {
				peerErr = "reading STARTUP: " + err.Error()
				return
			}
			if _, ok := st.Body.Message.(*message.Startup); !ok {
				peerErr = fmt.Sprintf("expected STARTUP, got %T", st.Body.Message)
				return
			}
			_, _ = se.Write(envelope(frame.NewFrame(v5, st.Header.StreamId, &message.Ready{})))
			reqs, err := readEnvelopes(se, lz4, 3)
			if err != nil {
				peerErr = "reading 3 requests: " + err.Error()
				return
			}
			var payload []byte
			for i := len(reqs) - 1; i >= 0; i-- {
				tag, _ := tagOf(reqs[i])
				payload = append(payload, envelope(respFor(tag, reqs[i].Header.StreamId, 10))...)
			}
			// the last envelope of the segment is a bodyless READY-like response (exactly one header long)
			_, _ = se.Write(seg(payload, true, lz4))
			for k := range sp {
				rs, err := readEnvelopes(se, lz4, 1)
				if err != nil {
					peerErr = fmt.Sprintf("reading request %d: %v", k, err)
					return
				}
				tag, _ := tagOf(rs[0])
				sz, parts := vary(size, sp[k], k)
				env := envelope(respFor(tag, rs[0].Header.StreamId, sz))
				writeSplit(se, env, parts, lz4)
			}
			// finally: a request answered by two envelopes' worth of segment where the last is a bare header (VOID result has a 4-byte body; READY has none)
			rs, err := readEnvelopes(se, lz4, 2)
			if err != nil {
				peerErr = "reading final requests: " + err.Error()
				return
			}
			p2 := append(envelope(respFor("final-0", rs[0].Header.StreamId, 3)), envelope(frame.NewFrame(v5, rs[1].Header.StreamId, &message.Ready{}))...)
			_, _ = se.Write(seg(p2, true, lz4))
		})
		if err := cc.InitiateHandshake(v5, 1); err != nil {
			o.Fail("C15:handshake-failed", "InitiateHandshake", "against a raw v5 peer: %v (peer: %s)", err, peerErr)
			sched.Atomic(func() { _ = cc.Close() })
			return
		}
		var infl []client.InFlightRequest
		for i := 0; i < 3; i++ {
			r, err := cc.Send(query(fmt.Sprintf("multi-%d", i), 5))
			if err != nil {
				o.Fail("C15:send-refused", "Send", "%v", err)
				return
			}
			infl = append(infl, r)
		}
		for i, r := range infl {
			f, ok := Recv(r)
			if !ok {
				o.Fail("C15:multi-envelope-lost", "readSelfContainedSegment", "request multi-%d got no response out of a segment carrying 3 envelopes: %v (peer: %s)", i, r.Err(), peerErr)
				continue
			}
			if got, _ := tagOf(f); got != fmt.Sprintf("multi-%d", i) {
				o.Fail("C15:multi-envelope-misrouted", "readSelfContainedSegment", "request multi-%d received the response for %s", i, got)
			}
		}
		for k := range sp {
			sz, _ := vary(size, sp[k], k)
			want := gen.Payload(sz, "text")
			tag := fmt.Sprintf("split-%03d", k)
			r, err := cc.Send(query(tag, 5))
			if err != nil {
				o.Fail("C15:send-refused", "Send", "%v", err)
				break
			}
			f, ok := Recv(r)
			if !ok {
				o.Fail("C15:split-envelope-lost", "addMultiSegmentPayload", "response cut into parts %v never arrived: %v (peer: %s)", clipParts(sp[k]), r.Err(), peerErr)
				break
			}
			got, data := tagOf(f)
			if got != tag {
				o.Fail("C15:split-envelope-misrouted", "addMultiSegmentPayload", "parts %v: got the response for %s", clipParts(sp[k]), got)
			}
			if !bytes.Equal(data, want) {
				o.Fail("C15:split-envelope-corrupted", "addMultiSegmentPayload", "parts %v: reassembled response differs from what the peer sent (%d vs %d bytes)", clipParts(sp[k]), len(data), len(want))
			}
		}
		ra, err1 := cc.Send(query("final-0", 1))
		rb, err2 := cc.Send(frame.NewFrame(v5, 0, &message.Register{EventTypes: []primitive.EventType{primitive.EventTypeStatusChange}}))
		if err1 == nil && err2 == nil {
			if _, ok := Recv(ra); !ok {
				o.Fail("C15:multi-envelope-lost", "readSelfContainedSegment", "first of two envelopes in a segment lost: %v", ra.Err())
			}
			if f, ok := Recv(rb); !ok {
				o.Fail("C15:multi-envelope-lost", "readSelfContainedSegment", "a bodyless envelope (READY) at the end of a multi-envelope segment was not delivered: %v (peer: %s)", rb.Err(), peerErr)
			} else if _, isReady := f.Body.Message.(*message.Ready); !isReady {
				o.Fail("C15:multi-envelope-misrouted", "readSelfContainedSegment", "expected READY, got %T", f.Body.Message)
			}
		}
		sched.Op("join", 0, func() bool { return peerDone })
		if peerErr != "" {
			o.Fail("C15:raw-peer", "client->raw server", "%s", peerErr)
		}
		o.Logf("done splits=%d", len(sp))
		sched.Atomic(func() { _ = cc.Close() })
	}}
}

func clipParts(p []int) []int { return p }

// rawClientHarness: the real server connection against a raw v5 client peer that packs several
// request envelopes into one segment and cuts a request envelope over several segments.
func rawClientHarness(name string, lz4 bool, size int, maxSplits int, bound int) *explore.Harness {
	return &explore.Harness{Name: name, Cost: "delay", Bound: bound, Param: fmt.Sprintf("v5 lz4=%v request payload %d bytes", lz4, size), Body: func(o *explore.Obs) {
		ctx, cancel := vctx.WithCancel(vctx.Background())
		defer cancel()
		ce, se := vnet.Pipe()
		sc, err := client.VNewServerConn(se, ctx, nil, 1024, time.Hour, nil, nil, nil)
		if err != nil {
			o.Fail("C15:setup", "VNewServerConn", "%v", err)
			return
		}
		sp := splits(len(envelope(query("split-000", size))))
		if maxSplits > 0 && len(sp) > maxSplits {
			sp = sp[:maxSplits]
		}
		peerErr := ""
		peerDone := false
		sched.GoNamed("raw-client", func() {
			defer func() { peerDone = true }()
			st := message.NewStartup()
			if lz4 {
				st.SetCompression(primitive.CompressionLz4)
			}
			_, _ = ce.Write(envelope(frame.NewFrame(v5, 1, st)))
			// the response to STARTUP may already be compressed (spec 2.3.2)
			rd, err := frame.NewCodecWithCompression(client.NewBodyCompressor(compOf(lz4))).DecodeFrame(ce)
			if err != nil {
				peerErr = "reading READY: " + err.Error()
				return
			}
			if _, ok := rd.Body.Message.(*message.Ready); !ok {
				peerErr = fmt.Sprintf("expected READY, got %T", rd.Body.Message)
				return
			}
			// three requests in one self-contained segment
			var payload []byte
			for i := 0; i < 3; i++ {
				q := query(fmt.Sprintf("multi-%d", i), 4)
				q.Header.StreamId = int16(i + 1)
				payload = append(payload, envelope(q)...)
			}
			// ... followed by a request without a body (OPTIONS: exactly one header long) as the last envelope
			op := frame.NewFrame(v5, 4, &message.Options{})
			payload = append(payload, envelope(op)...)
			_, _ = ce.Write(seg(payload, true, lz4))
			for k := range sp {
				sz, parts := vary(size, sp[k], k)
				q := query(fmt.Sprintf("split-%03d", k), sz)
				q.Header.StreamId = 7
				writeSplit(ce, envelope(q), parts, lz4)
			}
		})
		if err := sc.AcceptHandshake(); err != nil {
			o.Fail("C15:handshake-failed", "AcceptHandshake", "against a raw v5 peer: %v (peer: %s)", err, peerErr)
			sched.Atomic(func() { _ = sc.Close() })
			return
		}
		for i := 0; i < 3; i++ {
			f, err := sc.Receive()
			if err != nil {
				o.Fail("C15:multi-envelope-lost", "CqlServerConnection.readSelfContainedSegment", "request %d of 3 packed in one segment not received: %v", i, err)
				break
			}
			if got, _ := tagOf(f); got != fmt.Sprintf("multi-%d", i) {
				o.Fail("C15:multi-envelope-order", "CqlServerConnection.readSelfContainedSegment", "position %d: received %s", i, got)
			}
		}
		if f, err := sc.Receive(); err != nil {
			o.Fail("C15:multi-envelope-lost", "CqlServerConnection.readSelfContainedSegment", "the bodyless request (OPTIONS) at the end of a segment of 4 envelopes was not received: %v", err)
		} else if _, ok := f.Body.Message.(*message.Options); !ok {
			o.Fail("C15:multi-envelope-order", "CqlServerConnection.readSelfContainedSegment", "expected OPTIONS as the 4th envelope, got %T", f.Body.Message)
		}
		for k := range sp {
			f, err := sc.Receive()
			if err != nil {
				o.Fail("C15:split-envelope-lost", "CqlServerConnection.addMultiSegmentPayload", "request cut into parts %v not received: %v", sp[k], err)
				break
			}
			got, data := tagOf(f)
			sz, _ := vary(size, sp[k], k)
			want := gen.Payload(sz, "text")
			if got != fmt.Sprintf("split-%03d", k) || !bytes.Equal(data, want) {
				o.Fail("C15:split-envelope-corrupted", "CqlServerConnection.addMultiSegmentPayload", "parts %v: received %s with %d payload bytes", sp[k], got, len(data))
			}
		}
		sched.Op("join", 0, func() bool { return peerDone })
		if peerErr != "" {
			o.Fail("C15:raw-peer", "raw client->server", "%s", peerErr)
		}
		o.Logf("done splits=%d", len(sp))
		sched.Atomic(func() { _ = sc.Close() })
	}}
}

func rawPeerHarnesses() []*explore.Harness {
	var hs []*explore.Harness
	for _, lz4 := range []bool{false, true} {
		n := map[bool]string{false: "none", true: "lz4"}[lz4]
		// every split point of a short envelope (delay bound 0), a schedule-exploring run with 2 splits
		hs = append(hs, rawServerHarness("rawserver/"+n+"/small-all-splits", lz4, 12, 0, 0))
		hs = append(hs, rawClientHarness("rawclient/"+n+"/small-all-splits", lz4, 12, 0, 0))
		hs = append(hs, rawServerHarness("rawserver/"+n+"/150KiB", lz4, 150*1024, 0, 0))
		hs = append(hs, rawServerHarness("rawserver/"+n+"/300KiB", lz4, 300*1024, 0, 0))
		hs = append(hs, rawClientHarness("rawclient/"+n+"/150KiB", lz4, 150*1024, 0, 0))
	}
	hs = append(hs, rawServerHarness("rawserver/lz4/sched", true, 12, 2, 1))
	hs = append(hs, rawClientHarness("rawclient/none/sched", false, 12, 2, 2))
	return hs
}
