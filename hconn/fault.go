package hconn

import (
	"fmt"
	"strings"
	"time"

	"github.com/datastax/go-cassandra-native-protocol/client"
	"github.com/datastax/go-cassandra-native-protocol/frame"
	"github.com/datastax/go-cassandra-native-protocol/message"
	"github.com/datastax/go-cassandra-native-protocol/primitive"
	"github.com/datastax/go-cassandra-native-protocol/verifrt/sched"
	"github.com/datastax/go-cassandra-native-protocol/verifrt/vnet"

	"verif/engine/explore"
)

// FaultHarness: a scripted session (handshake, n concurrent requests each answered by a server
// thread, optionally a 3-page response) with one fault injected at scheduling point Arg
// (Arg < 0: no fault). Faults: client-close, server-close, reset (network), cancel (context).
// Oracles at the end of every execution: DESIGN C16.
func FaultHarness(name string, cfg Cfg, fault string, nreq int, pages int, bound int) *explore.Harness {
	cfg.MaxPending = pages + 2
	cfg = cfg.defaults()
	return &explore.Harness{Name: name, Cost: "delay", Bound: bound, Param: fmt.Sprintf("%s fault=%s requests=%d pages=%d", cfg, fault, nreq, pages), Body: func(o *explore.Obs) {
		vnet.CoalesceWrites = false // a fault must also be able to land inside a frame
		p, err := NewPair(cfg, nil)
		if err != nil {
			o.Fail("C16:setup", "NewPair", "%v", err)
			return
		}
		vnet.CoalesceWrites = false
		at := explore.CurrentArg
		faultDone := at < 0
		var closeErr error
		if at >= 0 {
			sched.GoForced("fault:"+fault, at, func() {
				switch fault {
				case "client-close":
					closeErr = p.C.Close()
				case "server-close":
					closeErr = p.S.Close()
				case "reset":
					p.CEnd.Reset()
				case "cancel":
					p.Cancel()
				case "raw-close-server": // the transport is closed underneath the server connection
					_ = p.SEnd.Close()
				case "raw-close-client":
					_ = p.CEnd.Close()
				}
				faultDone = true
			})
		}
		type reqState struct {
			r        client.InFlightRequest
			got      int
			sendErr  error
			finished bool
		}
		states := make([]*reqState, nreq)
		running := 0
		hsErr := error(nil)
		hsDone := false
		running++
		sched.GoNamed("handshake+senders", func() {
			defer func() { running-- }()
			// the two sides of the handshake in two harness threads (PerformHandshake is a test helper whose own
			// goroutine bookkeeping is not part of the connection)
			var srvErr error
			srvDone := false
			sched.GoNamed("accept-handshake", func() { srvErr = p.S.AcceptHandshake(); srvDone = true })
			hsErr = p.C.InitiateHandshake(cfg.Version, 0)
			sched.Op("hs-join", 0, func() bool { return srvDone })
			if hsErr == nil {
				hsErr = srvErr
			}
			hsDone = true
			if hsErr != nil {
				return
			}
			for i := 0; i < nreq; i++ {
				i := i
				st := &reqState{}
				states[i] = st
				running++
				sched.GoNamed(fmt.Sprintf("sender%d", i), func() {
					defer func() { running-- }()
					q := frame.NewFrame(cfg.Version, 0, &message.Query{Query: fmt.Sprintf("q%d", i), Options: &message.QueryOptions{Consistency: primitive.ConsistencyLevelOne}})
					st.r, st.sendErr = p.C.Send(q)
					if st.sendErr != nil {
						st.finished = true
						return
					}
					for {
						f, err := p.C.Receive(st.r)
						if f == nil || err != nil {
							break
						}
						st.got++
					}
					st.finished = true
				})
			}
			// the server side: answer every request (with pages+1 frames when pages > 0)
			running++
			sched.GoNamed("responder", func() {
				defer func() { running-- }()
				for n := 0; n < nreq; n++ {
					req, err := p.S.Receive()
					if err != nil {
						return
					}
					for pg := 1; pg <= pages+1; pg++ {
						var resp *frame.Frame
						if pages == 0 {
							resp = frame.NewFrame(cfg.Version, req.Header.StreamId, &message.VoidResult{})
						} else {
							resp = frame.NewFrame(cfg.Version, req.Header.StreamId, &message.RowsResult{Metadata: &message.RowsMetadata{ColumnCount: 1, ContinuousPageNumber: int32(pg), LastContinuousPage: pg == pages+1}, Data: message.RowSet{}})
						}
						if err := p.S.Send(resp); err != nil {
							return
						}
					}
				}
			})
		})
		sched.Op("join", 0, func() bool { return running == 0 && faultDone })
		sched.Sleep(int64(time.Millisecond)) // quiesce: asynchronous aborts triggered by the fault complete
		// ---- oracles ----
		sched.Atomic(func() {
			if at < 0 && hsErr != nil {
				o.Fail("C16:handshake-failed", "PerformHandshake", "without any fault: %v", hsErr)
			}
			faultOnClient := fault == "client-close" || fault == "reset" || fault == "cancel"
			for i, st := range states {
				if st == nil || st.sendErr != nil {
					continue
				}
				want := pages + 1
				if !st.finished {
					o.Fail("C16:receiver-blocked", "Receive", "sender %d never finished", i)
				}
				if !st.r.IsDone() {
					o.Fail("C16:request-not-completed", "inFlightRequest.close", "request %d (stream %d) is not done after the session ended (fault %s at %d)", i, st.r.StreamId(), fault, at)
				}
				select {
				case _, open := <-st.r.Incoming():
					if open {
						o.Fail("C16:undelivered-frame", "inFlightRequest", "request %d still had a frame queued", i)
					}
				default:
					o.Fail("C16:channel-open", "inFlightRequest.close", "channel of request %d is still open", i)
				}
				if st.got < want && st.r.Err() == nil && st.r.IsDone() {
					o.Fail("C16:completed-without-error", "inFlightRequest.close", "request %d received %d of %d frames and completed without an error (fault %s at %d)", i, st.got, want, fault, at)
				}
				if at < 0 && (st.got != want || st.r.Err() != nil) {
					o.Fail("C16:no-fault-incomplete", "session", "without any fault request %d received %d of %d frames, err=%v", i, st.got, want, st.r.Err())
				}
			}
			_ = faultOnClient
			if closeErr != nil && !strings.Contains(closeErr.Error(), "closed") {
				o.Logf("close returned %v", closeErr)
			}
			_ = p.C.Close()
			_ = p.S.Close()
			p.Cancel()
			if _, err := p.C.Send(frame.NewFrame(cfg.Version, 0, &message.Options{})); err == nil {
				o.Fail("C16:send-after-close", "CqlClientConnection.Send", "Send accepted a frame on a closed connection")
			}
			if err := p.S.Send(frame.NewFrame(cfg.Version, 1, &message.Ready{})); err == nil {
				o.Fail("C16:send-after-close", "CqlServerConnection.Send", "Send accepted a frame on a closed connection")
			}
			o.Logf("hs=%v done=%v", hsErr == nil, hsDone)
		})
	}}
}

// TimeoutHarness: one request on a real client connection against a raw responder that answers
// after `delay` (pages=0), or sends `pages` non-final pages `gap` apart and then stays silent.
func TimeoutHarness(name string, T, delay, gap time.Duration, pages int, bound int) *explore.Harness {
	return &explore.Harness{Name: name, Cost: "delay", Bound: bound, Param: fmt.Sprintf("T=%v delay=%v gap=%v pages=%d", T, delay, gap, pages), Body: func(o *explore.Obs) {
		cfg := Cfg{Version: primitive.ProtocolVersionDse2, ReadTimeout: T, MaxPending: 8}.defaults()
		p, err := NewPair(cfg, nil)
		if err != nil {
			o.Fail("C16:setup", "NewPair", "%v", err)
			return
		}
		if err := client.PerformHandshake(p.C, p.S, cfg.Version, 0); err != nil {
			o.Fail("C16:handshake-failed", "PerformHandshake", "%v", err)
			return
		}
		t0 := sched.Now()
		done := false
		sched.GoNamed("responder", func() {
			defer func() { done = true }()
			req, err := p.S.Receive()
			if err != nil {
				return
			}
			if pages == 0 {
				sched.Sleep(int64(delay))
				_ = p.S.Send(frame.NewFrame(cfg.Version, req.Header.StreamId, &message.VoidResult{}))
				return
			}
			for pg := 1; pg <= pages; pg++ {
				sched.Sleep(int64(gap))
				_ = p.S.Send(frame.NewFrame(cfg.Version, req.Header.StreamId, &message.RowsResult{Metadata: &message.RowsMetadata{ColumnCount: 1, ContinuousPageNumber: int32(pg)}, Data: message.RowSet{}}))
			}
		})
		q := frame.NewFrame(cfg.Version, 0, &message.Query{Query: "q", Options: &message.QueryOptions{Consistency: primitive.ConsistencyLevelOne}})
		r, err := p.C.Send(q)
		if err != nil {
			o.Fail("C16:send-refused", "Send", "%v", err)
			return
		}
		got := 0
		var lastFrameAt, endAt int64
		for {
			f, err := p.C.Receive(r)
			if f == nil || err != nil {
				endAt = sched.Now()
				break
			}
			got++
			lastFrameAt = sched.Now()
		}
		sched.Op("join", 0, func() bool { return done })
		sched.Sleep(int64(time.Second)) // let everything in flight (e.g. a late response) be processed
		sched.Atomic(func() {
			el := time.Duration(endAt - t0)
			if pages == 0 {
				switch {
				case delay < T:
					if got != 1 || r.Err() != nil {
						o.Fail("C16:early-timeout", "inFlightRequest.startTimeout", "response after %v (< read timeout %v): received %d frames, err=%v", delay, T, got, r.Err())
					}
				case delay > T:
					if got != 0 || r.Err() == nil {
						o.Fail("C16:missing-timeout", "inFlightRequest.startTimeout", "response only after %v (> read timeout %v): received %d frames, err=%v", delay, T, got, r.Err())
					} else if el != T {
						o.Fail("C16:timeout-instant", "inFlightRequest.startTimeout", "request failed after %v of silence, read timeout is %v", el, T)
					}
				}
			} else {
				// pages keep arriving every gap < T: no timeout while they arrive; after the last one, failure after exactly T of silence
				if got != pages {
					o.Fail("C16:early-timeout", "inFlightRequest.resetTimeout", "%d pages sent %v apart (read timeout %v): only %d received before the request ended (err=%v)", pages, gap, T, got, r.Err())
				}
				if !r.IsDone() || r.Err() == nil {
					o.Fail("C16:missing-timeout", "inFlightRequest.resetTimeout", "after the last page and silence: done=%v err=%v (a timeout error is expected)", r.IsDone(), r.Err())
				}
				if silence := time.Duration(endAt - lastFrameAt); got == pages && silence != T {
					o.Fail("C16:timeout-instant", "inFlightRequest.resetTimeout", "request ended %v after its last page, read timeout is %v", silence, T)
				}
			}
			o.Logf("got=%d err=%v elapsed=%v", got, r.Err() != nil, el)
			p.Close()
		})
	}}
}
