package hconn

import "verif/engine/explore"

// RawPeerHarnesses is filled in by rawpeer_impl.go.
func RawPeerHarnesses() []*explore.Harness { return rawPeerHarnesses() }
