// Package mutfam defines the mutation families of C04 (and the re-encode clause of C05): valid
// encodings from the grammars, systematically mutated, fed to every decoding entry point inside
// the isolated executor (package iso).
package mutfam

import (
	"bytes"
	"encoding/binary"
	"encoding/gob"
	"fmt"
	plz4 "github.com/pierrec/lz4/v4"
	"os"
	"path/filepath"
	"reflect"
	"time"
	"verif/ref/refseg"

	"github.com/datastax/go-cassandra-native-protocol/client"
	"github.com/datastax/go-cassandra-native-protocol/compression/lz4"
	"github.com/datastax/go-cassandra-native-protocol/compression/snappy"
	"github.com/datastax/go-cassandra-native-protocol/datacodec"
	"github.com/datastax/go-cassandra-native-protocol/datatype"
	"github.com/datastax/go-cassandra-native-protocol/frame"
	"github.com/datastax/go-cassandra-native-protocol/message"
	"github.com/datastax/go-cassandra-native-protocol/primitive"
	"github.com/datastax/go-cassandra-native-protocol/segment"

	"verif/cql"
	"verif/fcheck"
	"verif/gen"
	"verif/iso"
	"verif/vlib"
)

// Item is one valid encoding.
type Item struct {
	Kind    string // frame, segment, cql, compressed, datatype, primitive
	Name    string
	Version uint8
	Comp    string
	TypeIdx int // index into the type list for cql items
	Bytes   []byte
	Fields  [][2]int // (offset, width) of every read the library's own decoder performs on the valid encoding
	Pairs   int      // two-field mutations of [int] fields: 0 none, 1 fields read one after the other, 2 all pairs
}

// Trace prints every entry point before it is called (debug aid).
var Trace bool

var corpus []Item
var corpusPath = filepath.Join(filepath.Dir(os.Args[0]), "corpus-"+filepath.Base(os.Args[0])+".gob") // next to the binary: one per build directory

var int4 = []uint32{0xFFFFFFFF, 0xFFFFFFFE, 0x80000000, 0, 1, 0x7F, 0xFF, 0x7FFF, 0xFFFF, 0x00100001}
var int2 = []uint16{0xFFFF, 0xFFFE, 0x8000, 0, 1, 0x7FFF}
var int1 = []byte{0, 1, 0x7F, 0x80, 0xFF}

// single-bit flips: the low bits (off-by-small), bit 3, and the sign bit of every byte; flips of bits 4-6
// of a count's high byte only turn it into a count of 2^28..2^30 elements (allocation amplification)
var flipBits = []uint{0, 1, 2, 3, 7}

// mutate builds mutant number m of b; the index space is the concatenation of: 4-byte field
// values at every offset, 2-byte values at every offset, 1-byte values at every offset, "n-1/n+1"
// of every 4-byte and 2-byte big-endian field, truncation at every offset, every single-bit flip
// (inputs up to 256 bytes), and 3 extensions.
// homonyms builds destinations of two struct types that share their name (reflect.Type.String() is
// "mutfam.Rec" for both) but not their layout.
var homonyms = []func() interface{}{
	func() interface{} {
		type Rec struct {
			X, Y bool
			A    int32
			B    string
		}
		return &Rec{}
	},
	func() interface{} {
		type Rec struct {
			A int32
		}
		return &Rec{}
	},
	func() interface{} {
		type Rec struct {
			B string
			A int32
		}
		return &Rec{}
	},
}

// ---- field-aware mutation (frames without body compression) ----------------------------------
// The field map is obtained by decoding the VALID encoding through a reader that records every
// Read call: the primitive readers fetch each [int], [short], [byte], [long], length prefix and
// payload with one exact-size read, so the trace is the list of (offset, width) the decoder will
// interpret. Mutating whole fields with width-appropriate values covers every length / count /
// code / flag field without manufacturing 2^31-element counts from misaligned writes (those only
// measure allocation amplification, DESIGN section 6).

var f4 = []uint32{0xFFFFFFFF, 0xFFFFFFFE, 0x80000000, 0, 1, 0x7F, 0xFF, 0x7FFF, 0xFFFF, 0x00100001}
var p4 = []uint32{0xFFFF, 0x10000} // pair values: 2^16-1 (product wraps negative in 32 bits), 2^16 (product wraps to 0)
var f2 = []uint16{0xFFFF, 0xFFFE, 0x8000, 0, 1, 0x7FFF, 0x00FF, 0x0100}
var f1 = []byte{0, 1, 2, 0x7F, 0x80, 0xFF}
var f8 = []uint64{0, 0xFFFFFFFFFFFFFFFF, 0x8000000000000000, 0x7FFFFFFFFFFFFFFF}

type fmut struct {
	n    int
	make func(b []byte, k int) ([]byte, string)
}

func fieldMutators(it Item) []fmut {
	var ms []fmut
	for _, f := range it.Fields {
		off, w := f[0], f[1]
		switch w {
		case 4:
			ms = append(ms, fmut{len(f4) + 2 + 16, func(b []byte, k int) ([]byte, string) {
				cur := binary.BigEndian.Uint32(b[off:])
				var v uint32
				switch {
				case k < len(f4):
					v = f4[k]
				case k == len(f4):
					v = cur - 1
				case k == len(f4)+1:
					v = cur + 1
				default:
					v = cur ^ (1 << uint(k-len(f4)-2)) // flips of the low 16 bits
				}
				binary.BigEndian.PutUint32(b[off:], v)
				return b, fmt.Sprintf("[int] field at %d := %#x", off, v)
			}})
		case 2:
			ms = append(ms, fmut{len(f2) + 2 + 16, func(b []byte, k int) ([]byte, string) {
				cur := binary.BigEndian.Uint16(b[off:])
				var v uint16
				switch {
				case k < len(f2):
					v = f2[k]
				case k == len(f2):
					v = cur - 1
				case k == len(f2)+1:
					v = cur + 1
				default:
					v = cur ^ (1 << uint(k-len(f2)-2))
				}
				binary.BigEndian.PutUint16(b[off:], v)
				return b, fmt.Sprintf("[short] field at %d := %#x", off, v)
			}})
		case 1:
			ms = append(ms, fmut{len(f1) + 8, func(b []byte, k int) ([]byte, string) {
				if k < len(f1) {
					b[off] = f1[k]
				} else {
					b[off] ^= 1 << uint(k-len(f1))
				}
				return b, fmt.Sprintf("[byte] field at %d := %#x", off, b[off])
			}})
		case 8:
			ms = append(ms, fmut{len(f8), func(b []byte, k int) ([]byte, string) {
				binary.BigEndian.PutUint64(b[off:], f8[k])
				return b, fmt.Sprintf("[long] field at %d := %#x", off, f8[k])
			}})
		default:
			if w > 0 {
				ms = append(ms, fmut{3, func(b []byte, k int) ([]byte, string) {
					switch k {
					case 0:
						b[off] ^= 0x01
					case 1:
						b[off+w-1] ^= 0x80
					default:
						b[off+w/2] = 0xFF
					}
					return b, fmt.Sprintf("payload of %d bytes at %d altered (%d)", w, off, k)
				}})
			}
		}
	}
	// two [int] fields at once (counts whose PRODUCT or SUM matters: rows x columns, length + offset)
	if it.Pairs > 0 {
		var ints []int
		for i, f := range it.Fields {
			if f[1] == 4 {
				ints = append(ints, i)
			}
		}
		for x := 0; x < len(ints); x++ {
			for y := x + 1; y < len(ints); y++ {
				if it.Pairs == 1 && ints[y] != ints[x]+1 {
					continue
				}
				o1, o2 := it.Fields[ints[x]][0], it.Fields[ints[y]][0]
				ms = append(ms, fmut{len(p4) * len(p4), func(b []byte, k int) ([]byte, string) {
					v1, v2 := p4[k/len(p4)], p4[k%len(p4)]
					binary.BigEndian.PutUint32(b[o1:], v1)
					binary.BigEndian.PutUint32(b[o2:], v2)
					return b, fmt.Sprintf("[int] fields at %d and %d := %#x, %#x", o1, o2, v1, v2)
				}})
			}
		}
	}
	l := len(it.Bytes)
	ms = append(ms, fmut{l, func(b []byte, k int) ([]byte, string) { return b[:k], fmt.Sprintf("truncated to %d bytes", k) }})
	ms = append(ms, fmut{3, func(b []byte, k int) ([]byte, string) {
		return append(b, bytes.Repeat([]byte{0xA5}, k+1)...), fmt.Sprintf("%d bytes appended", k+1)
	}})
	return ms
}

func nFieldMutants(it Item) int {
	n := 0
	for _, m := range fieldMutators(it) {
		n += m.n
	}
	return n
}

func fieldMutate(it Item, m int) ([]byte, string) {
	b := append([]byte{}, it.Bytes...)
	for _, fm := range fieldMutators(it) {
		if m < fm.n {
			return fm.make(b, m)
		}
		m -= fm.n
	}
	return b, "identity"
}

// traceReader records every Read.
type traceReader struct {
	r      *bytes.Reader
	total  int
	fields [][2]int
}

func (t *traceReader) Read(p []byte) (int, error) {
	off := t.total - t.r.Len()
	n, err := t.r.Read(p)
	if n > 0 {
		t.fields = append(t.fields, [2]int{off, n})
	}
	return n, err
}

// traceFields decodes a valid uncompressed frame and returns its field map.
func traceFields(b []byte) [][2]int {
	tr := &traceReader{r: bytes.NewReader(b), total: len(b)}
	if _, err := frame.NewCodec().DecodeFrame(tr); err != nil {
		return nil
	}
	return tr.fields
}

// countOf / mutantOf dispatch between the field-aware and the blind scheme.
func countOf(it Item) int {
	if len(it.Fields) > 0 {
		return nFieldMutants(it)
	}
	return nMutants(len(it.Bytes))
}

func mutantOf(it Item, m int) ([]byte, string) {
	if len(it.Fields) > 0 {
		return fieldMutate(it, m)
	}
	return mutate(it.Bytes, m)
}

func nMutants(l int) int {
	n := 0
	if l >= 4 {
		n += (l - 3) * (len(int4) + 2)
	}
	if l >= 2 {
		n += (l - 1) * (len(int2) + 2)
	}
	n += l * len(int1)
	n += l // truncations
	if l <= 256 {
		n += len(flipBits) * l
	}
	return n + 3
}

func mutate(b []byte, m int) ([]byte, string) {
	l := len(b)
	out := append([]byte{}, b...)
	if l >= 4 {
		k := len(int4) + 2
		if m < (l-3)*k {
			off, vi := m/k, m%k
			var v uint32
			switch {
			case vi < len(int4):
				v = int4[vi]
			case vi == len(int4):
				v = binary.BigEndian.Uint32(b[off:]) - 1
			default:
				v = binary.BigEndian.Uint32(b[off:]) + 1
			}
			binary.BigEndian.PutUint32(out[off:], v)
			return out, fmt.Sprintf("int32 at %d := %#x", off, v)
		}
		m -= (l - 3) * k
	}
	if l >= 2 {
		k := len(int2) + 2
		if m < (l-1)*k {
			off, vi := m/k, m%k
			var v uint16
			switch {
			case vi < len(int2):
				v = int2[vi]
			case vi == len(int2):
				v = binary.BigEndian.Uint16(b[off:]) - 1
			default:
				v = binary.BigEndian.Uint16(b[off:]) + 1
			}
			binary.BigEndian.PutUint16(out[off:], v)
			return out, fmt.Sprintf("short at %d := %#x", off, v)
		}
		m -= (l - 1) * k
	}
	if m < l*len(int1) {
		off, vi := m/len(int1), m%len(int1)
		out[off] = int1[vi]
		return out, fmt.Sprintf("byte at %d := %#x", off, int1[vi])
	}
	m -= l * len(int1)
	if m < l {
		return out[:m], fmt.Sprintf("truncated to %d bytes", m)
	}
	m -= l
	if l <= 256 {
		k := len(flipBits)
		if m < k*l {
			out[m/k] ^= 1 << flipBits[m%k]
			return out, fmt.Sprintf("bit %d of byte %d flipped", flipBits[m%k], m/k)
		}
		m -= k * l
	}
	return append(out, bytes.Repeat([]byte{0xA5}, m+1)...), fmt.Sprintf("%d bytes appended", m+1)
}

func pv(v uint8) primitive.ProtocolVersion { return primitive.ProtocolVersion(v) }

// cqlTypes is the type list of the cql family (same order in parent and workers: generated, not random).
func cqlTypes() []datatype.DataType {
	var out []datatype.DataType
	out = append(out, cql.ScalarTypes()...)
	for _, t := range gen.DataTypes(2) {
		if cql.IsComposite(t) {
			out = append(out, t)
		}
	}
	return out
}

// BuildCorpus generates the corpus and writes it for the workers. thorough widens it.
func BuildCorpus(thorough bool) int {
	var items []Item
	seen := map[string]bool{}
	add := func(it Item) {
		k := it.Kind + "|" + it.Comp + "|" + fmt.Sprint(it.Version) + "|" + string(it.Bytes)
		if !seen[k] {
			seen[k] = true
			items = append(items, it)
		}
	}
	// frames. quick: the simplest instance of every message kind per version, the header variants of three
	// kinds, LZ4/Snappy bodies of a few; thorough: every base message, every header variant, all single-field
	// deviations up to 600 bytes.
	for _, v := range gen.Versions {
		o := gen.Opts{D: 0, TypeDepth: 0}
		if thorough {
			o = gen.Opts{D: 1, TypeDepth: 0}
		}
		kindSeen := map[string]int{}
		if !thorough && v != gen.V2 && v != gen.V5 && v != gen.DSE2 {
			continue // quick: the oldest, the newest and the newest DSE version
		}
		gen.Frames(v, o, func(cs gen.Case) {
			kind := fcheck.Kind(cs.Name)
			isHdr := bytes.Contains([]byte(cs.Name), []byte("/hdr"))
			isOpts := bytes.Contains([]byte(cs.Name), []byte("/opts"))
			if !thorough {
				switch {
				case isOpts:
					var n int
					fmt.Sscanf(cs.Name[bytes.LastIndex([]byte(cs.Name), []byte("opts"))+4:], "%d", &n)
					if n%211 != 0 {
						return
					}
				case isHdr:
					if kind != "RESULT.Rows" || (v != gen.V2 && v != gen.V5) {
						return
					}
				default:
					if kindSeen[kind] >= 1 && !((kind == "RESULT.Rows" || kind == "RESULT.Prepared") && len(fcheck.PathClass(cs.Name)) == 0) {
						return // every Rows and Prepared variant stays (with and without metadata ...): their counts interact
					}
					kindSeen[kind]++
				}
			}
			for _, comp := range fcheck.Compressions(v) {
				f := gen.Clone(cs.Frame).(*frame.Frame)
				if comp != primitive.CompressionNone {
					if !fcheck.Compressible(f) || isHdr || isOpts || len(fcheck.PathClass(cs.Name)) > 0 {
						continue
					}
					if !thorough && kind != "QUERY" && kind != "RESULT.Void" {
						continue // bodies compressed as a whole are mutated blindly: quick keeps one request and one response kind per compressor
					}
					f.Header.Flags |= primitive.HeaderFlagCompressed
				}
				buf := &bytes.Buffer{}
				if err := fcheck.Codec(comp).EncodeFrame(f, buf); err != nil || buf.Len() > 600 {
					continue
				}
				item := Item{Kind: "frame", Name: cs.Name, Version: uint8(v), Comp: string(comp), Bytes: append([]byte{}, buf.Bytes()...)}
				if comp == primitive.CompressionNone {
					item.Fields = traceFields(item.Bytes)
					if !isHdr && !isOpts { // pairs on the message itself; header variants and option vectors get single-site mutations
						item.Pairs = 1
						if thorough {
							item.Pairs = 2
						}
					}
				}
				add(item)
			}
		})
	}
	// segments
	segLens := []int{0, 1, 40, 300}
	if !thorough {
		segLens = []int{0, 33}
	}
	for _, n := range segLens {
		for _, class := range []string{"p7", "random"} {
			p := gen.Payload(n, class)
			for _, sc := range []bool{true, false} {
				for ci, codec := range []segment.Codec{segment.NewCodec(), segment.NewCodecWithCompression(&lz4.Compressor{})} {
					buf := &bytes.Buffer{}
					if err := codec.EncodeSegment(&segment.Segment{Header: &segment.Header{IsSelfContained: sc}, Payload: &segment.Payload{UncompressedData: p}}, buf); err == nil {
						add(Item{Kind: "segment", Name: fmt.Sprintf("len%d/%s/sc%v", n, class, sc), Comp: []string{"NONE", "LZ4"}[ci], Bytes: buf.Bytes()})
					}
				}
			}
		}
	}
	// segments whose fields disagree with each other but whose CRCs are right (a mutation that leaves a
	// checksum stale never gets past the checksum): the declared uncompressed length against what the block
	// really expands to, and truncated / extended blocks under a matching CRC-32. Built with the reference
	// segment encoder; the unmutated item itself is one of the cases that is run.
	for _, n := range []int{33, 300, 1000} {
		for _, class := range []string{"p7", "text"} {
			p := gen.Payload(n, class)
			cb := make([]byte, plz4.CompressBlockBound(n))
			m, err := plz4.CompressBlock(p, cb, nil)
			if err != nil || m == 0 {
				continue
			}
			block := cb[:m]
			for _, ul := range []int{1, n - 1, n + 1, 2 * n, 131071} {
				add(Item{Kind: "segment", Name: fmt.Sprintf("lz4-declared%d-of-%d/%s", ul, n, class), Comp: "LZ4", Bytes: refseg.Compressed(block, ul, true)})
			}
			add(Item{Kind: "segment", Name: fmt.Sprintf("lz4-block-truncated/%d/%s", n, class), Comp: "LZ4", Bytes: refseg.Compressed(block[:m-1], n, true)})
			add(Item{Kind: "segment", Name: fmt.Sprintf("lz4-block-extended/%d/%s", n, class), Comp: "LZ4", Bytes: refseg.Compressed(append(append([]byte{}, block...), 0), n, false)})
			add(Item{Kind: "segment", Name: fmt.Sprintf("lz4-raw-declared-compressed/%d/%s", n, class), Comp: "LZ4", Bytes: refseg.Compressed(p, n, true)})
		}
	}
	// CQL values: reference encodings for every type x small values (with nulls)
	types := cqlTypes()
	for ti, dt := range types {
		if !thorough && ti%7 != 0 && cql.IsComposite(dt) {
			continue // quick: every scalar type and every third composite type tree
		}
		for _, v := range []gen.V{gen.V2, gen.V4} {
			if !gen.TypeValid(dt, v) {
				continue
			}
			nv := 4
			if !thorough {
				nv = 2
			}
			vals := cql.Values(dt, nv, true)
			if !thorough && len(vals) > 3 {
				vals = append(vals[:2], vals[len(vals)-1])
			}
			for _, a := range vals {
				if b, ok := cql.Serialize(dt, a, v); ok && b != nil && len(b) <= 200 {
					it := Item{Kind: "cql", Name: cql.TypeName(dt), Version: uint8(v), TypeIdx: ti, Bytes: b}
					if cql.IsComposite(dt) {
						it.Fields = guessFields(b, v == gen.V2 && dt.Code() != primitive.DataTypeCodeTuple && dt.Code() != primitive.DataTypeCodeUdt)
					}
					add(it)
				}
			}
		}
	}
	// compressed blocks
	compLens := []int{0, 1, 30, 300}
	if !thorough {
		compLens = []int{0, 30}
	}
	for _, n := range compLens {
		for _, class := range []string{"p7", "text", "random"} {
			if !thorough && class == "text" {
				continue
			}
			p := gen.Payload(n, class)
			c1, c2, c3 := &bytes.Buffer{}, &bytes.Buffer{}, &bytes.Buffer{}
			l := lz4.Compressor{}
			s := snappy.Compressor{}
			if l.Compress(bytes.NewBuffer(p), c1) == nil {
				add(Item{Kind: "compressed", Name: "lz4-raw", Bytes: c1.Bytes()})
			}
			if l.CompressWithLength(bytes.NewBuffer(p), c2) == nil {
				add(Item{Kind: "compressed", Name: "lz4-len", Bytes: c2.Bytes()})
			}
			if s.CompressWithLength(bytes.NewBuffer(p), c3) == nil {
				add(Item{Kind: "compressed", Name: "snappy", Bytes: c3.Bytes()})
			}
		}
	}
	// type descriptors
	for _, v := range []gen.V{gen.V2, gen.V3, gen.V5} {
		dts := gen.DataTypes(1)
		if thorough {
			dts = gen.DataTypes(2)
		}
		for _, dt := range dts {
			if !gen.TypeValid(dt, v) {
				continue
			}
			buf := &bytes.Buffer{}
			if datatype.WriteDataType(dt, buf, v) == nil && buf.Len() <= 120 {
				add(Item{Kind: "datatype", Name: cql.TypeName(dt), Version: uint8(v), Bytes: buf.Bytes()})
			}
		}
	}
	_ = os.MkdirAll(filepath.Dir(corpusPath), 0o755)
	f, err := os.Create(corpusPath)
	if err != nil {
		panic(err)
	}
	defer f.Close()
	if err := gob.NewEncoder(f).Encode(items); err != nil {
		panic(err)
	}
	corpus = items
	return len(items)
}

func load() {
	if corpus != nil {
		return
	}
	f, err := os.Open(corpusPath)
	if err != nil {
		panic(err)
	}
	defer f.Close()
	if err := gob.NewDecoder(f).Decode(&corpus); err != nil {
		panic(err)
	}
}

// Describe renders a case for replay files.
func Describe(item, mut int) interface{} {
	load()
	it := corpus[item]
	what := "the corpus item itself"
	if mut > 0 {
		_, what = mutantOf(it, mut-1)
	}
	return map[string]interface{}{"kind": it.Kind, "name": it.Name, "version": it.Version, "compression": it.Comp, "valid_bytes_hex": fmt.Sprintf("%x", it.Bytes), "mutation": what}
}

type entry struct {
	name string
	run  func()
}

func guard(fs *[]iso.Finding, it Item, what string, entries []entry) {
	for _, e := range entries {
		if Trace {
			fmt.Fprintf(os.Stderr, "[trace] %s %s\n", time.Now().Format("15:04:05.000"), e.name)
		}
		func() {
			defer func() {
				if r := recover(); r != nil {
					site := vlib.PanicSite()
					*fs = append(*fs, iso.Finding{Keys: map[string]string{"kind": "panic", "entry": e.name, "site": site, "panic": panicClass(r)}, What: fmt.Sprintf("%s(%s of %s %q, version %d, %s) panics: %v", e.name, what, it.Kind, it.Name, it.Version, it.Comp, r)})
				}
			}()
			e.run()
		}()
	}
}

func panicClass(r interface{}) string {
	s := fmt.Sprint(r)
	var b []byte
	for i := 0; i < len(s) && len(b) < 60; i++ {
		if s[i] >= '0' && s[i] <= '9' {
			continue
		}
		b = append(b, s[i])
	}
	return string(b)
}

func msgCodec(op primitive.OpCode) message.Codec {
	for _, c := range message.DefaultMessageCodecs {
		if c.GetOpCode() == op {
			return c
		}
	}
	return nil
}

// run executes one mutant; reencode selects the C05 re-encode clause instead of the panic oracle.
func run(item, mut int, reencode bool) []iso.Finding {
	it := corpus[item]
	var b []byte
	what := "the corpus item itself"
	if mut >= 0 {
		b, what = mutantOf(it, mut)
	} else {
		b = append([]byte{}, it.Bytes...)
	}
	var fs []iso.Finding
	switch it.Kind {
	case "frame":
		// a declared body length above 2^20+1 only measures allocation amplification (DecodeRawBody
		// allocates the declared length before reading): counted, not run
		hl := 9
		if len(b) > 0 && b[0]&0x7F == 2 { // the (possibly mutated) version byte decides the header layout
			hl = 8
		}
		if len(b) >= hl {
			if bl := int32(binary.BigEndian.Uint32(b[hl-4 : hl])); bl > 1<<20+1 {
				return []iso.Finding{{Keys: map[string]string{"kind": "skipped-amplification"}}}
			}
		}
		comp := primitive.Compression(it.Comp)
		codec := fcheck.Codec(comp)
		raw := fcheck.RawCodec(comp)
		if reencode {
			var d1 *frame.Frame
			var err error
			if pv, _ := vlib.Catch(func() { d1, err = codec.DecodeFrame(bytes.NewReader(b)) }); pv != nil || err != nil {
				return nil
			}
			snap := gen.Clone(d1).(*frame.Frame)
			out := &bytes.Buffer{}
			if pv, _ := vlib.Catch(func() { err = codec.EncodeFrame(d1, out) }); pv != nil || err != nil {
				return nil // decodable but not re-encodable (e.g. an out-of-range enum accepted by the decoder): outside the clause
			}
			d2, err := codec.DecodeFrame(bytes.NewReader(out.Bytes()))
			if err != nil {
				fs = append(fs, iso.Finding{Keys: map[string]string{"kind": "reencode-decode-error", "msg": fcheck.Kind(it.Name)}, What: fmt.Sprintf("%s with %s decodes and re-encodes, but the result does not decode: %v", it.Name, what, err)})
			} else if d := gen.Equal(snap, d2, fcheck.Ignore); d != "" {
				fs = append(fs, iso.Finding{Keys: map[string]string{"kind": "reencode-mismatch", "msg": fcheck.Kind(it.Name), "diff": fcheck.DiffClass(d)}, What: fmt.Sprintf("%s with %s: decode -> encode -> decode differs at %s", it.Name, what, d)})
			}
			return fs
		}
		guard(&fs, it, what, []entry{
			{"DecodeFrame", func() { _, _ = codec.DecodeFrame(bytes.NewReader(b)) }},
			{"DecodeRawFrame+ConvertFromRawFrame", func() {
				if rf, err := raw.DecodeRawFrame(bytes.NewReader(b)); err == nil {
					_, _ = raw.ConvertFromRawFrame(rf)
				}
			}},
			{"DecodeHeader+DecodeBody", func() {
				r := bytes.NewReader(b)
				if h, err := raw.DecodeHeader(r); err == nil {
					_, _ = raw.DecodeBody(h, r)
				}
			}},
			{"DecodeHeader+DecodeRawBody", func() {
				r := bytes.NewReader(b)
				if h, err := raw.DecodeHeader(r); err == nil {
					_, _ = raw.DecodeRawBody(h, r)
				}
			}},
			{"DecodeHeader+DiscardBody", func() {
				r := bytes.NewReader(b)
				if h, err := raw.DecodeHeader(r); err == nil {
					_ = raw.DiscardBody(h, r)
				}
			}},
			{"message.Decode", func() {
				hl := 9
				if it.Version == 2 {
					hl = 8
				}
				if it.Comp != "NONE" || len(b) < hl {
					return
				}
				if mc := msgCodec(primitive.OpCode(it.Bytes[hl-5])); mc != nil {
					_, _ = mc.Decode(bytes.NewReader(b[hl:]), pv(it.Version))
				}
			}},
		})
	case "segment":
		codec := segment.NewCodec()
		if it.Comp == "LZ4" {
			codec = segment.NewCodecWithCompression(client.NewPayloadCompressor(primitive.CompressionLz4))
		}
		other := segment.NewCodecWithCompression(&lz4.Compressor{})
		if it.Comp == "LZ4" {
			other = segment.NewCodec()
		}
		guard(&fs, it, what, []entry{
			{"DecodeSegment", func() { _, _ = codec.DecodeSegment(bytes.NewReader(b)) }},
			{"DecodeSegment(other format)", func() { _, _ = other.DecodeSegment(bytes.NewReader(b)) }},
		})
	case "cql":
		dt := cqlTypes()[it.TypeIdx]
		codec, err := datacodec.NewCodec(dt)
		if err != nil {
			return nil
		}
		v := pv(it.Version)
		var es []entry
		es = append(es, entry{"Codec.Decode(*interface{})", func() { var x interface{}; _, _ = codec.Decode(b, &x, v) }})
		for _, m := range []cql.Mode{cql.Plain, cql.Ptr, cql.Iface} {
			if gt, ok := cql.GoType(dt, m); ok {
				gt := gt
				es = append(es, entry{"Codec.Decode(" + m.String() + ")", func() {
					d := reflect.New(gt)
					if gt.Kind() == reflect.Ptr {
						d.Elem().Set(reflect.New(gt.Elem()))
						_, _ = codec.Decode(b, d.Elem().Interface(), v)
						return
					}
					_, _ = codec.Decode(b, d.Interface(), v)
				}})
			}
		}
		switch dt.Code() {
		case primitive.DataTypeCodeUdt, primitive.DataTypeCodeTuple, primitive.DataTypeCodeMap:
			// named struct destinations; two DIFFERENT types with the same name (declared in different scopes, as
			// in api/v1.Address and model/v1.Address), one after the other: whatever a decoder remembers about one
			// must not be applied to the other
			for hi, mk := range homonyms {
				mk := mk
				es = append(es, entry{fmt.Sprintf("Codec.Decode(named struct Rec #%d)", hi+1), func() { _, _ = codec.Decode(b, mk(), v) }})
			}
		}
		if !cql.IsComposite(dt) {
			for _, r := range cql.Reps(dt) {
				r := r
				es = append(es, entry{"Codec.Decode(*" + r.Name + ")", func() {
					d := reflect.New(r.T)
					if r.T.Kind() == reflect.Ptr {
						d.Elem().Set(reflect.New(r.T.Elem()))
						_, _ = codec.Decode(b, d.Elem().Interface(), v)
						return
					}
					_, _ = codec.Decode(b, d.Interface(), v)
				}})
			}
		}
		guard(&fs, it, what, es)
	case "compressed":
		l := lz4.Compressor{}
		s := snappy.Compressor{}
		guard(&fs, it, what, []entry{
			{"lz4.Decompress", func() { _ = l.Decompress(bytes.NewReader(b), &bytes.Buffer{}) }},
			{"lz4.DecompressWithLength", func() { _ = l.DecompressWithLength(bytes.NewReader(b), &bytes.Buffer{}) }},
			{"snappy.DecompressWithLength", func() { _ = s.DecompressWithLength(bytes.NewReader(b), &bytes.Buffer{}) }},
		})
	case "datatype":
		guard(&fs, it, what, []entry{
			{"ReadDataType", func() {
				for _, v := range gen.Versions {
					_, _ = datatype.ReadDataType(bytes.NewReader(b), v)
				}
			}},
		})
	}
	return fs
}

func init() {
	// case 0 of every item is the item itself (for the deliberately inconsistent items of the corpus it is the
	// interesting one); cases 1.. are its mutants
	iso.Register(&iso.Family{Name: "c04", Load: load, Items: func() int { return len(corpus) }, Mutants: func(i int) int { return countOf(corpus[i]) + 1 },
		Run: func(item, mut int) []iso.Finding { return run(item, mut-1, false) }})
	iso.Register(&iso.Family{Name: "c05-reencode", Load: load, Items: func() int {
		n := 0
		for _, it := range corpus {
			if it.Kind == "frame" {
				n++
			}
		}
		return n
	}, Mutants: func(i int) int { return countOf(corpus[frameIdx(i)]) },
		Run: func(item, mut int) []iso.Finding { return run(frameIdx(item), mut, true) }})
}

var frameIndex []int

func frameIdx(i int) int {
	if frameIndex == nil {
		for k, it := range corpus {
			if it.Kind == "frame" {
				frameIndex = append(frameIndex, k)
			}
		}
	}
	return frameIndex[i]
}

// DescribeReencode maps a c05-reencode case to its description.
func DescribeReencode(item, mut int) interface{} {
	load()
	return Describe(frameIdx(item), mut+1)
}

// RunOne executes one case in this process (debug / replay aid).
func RunOne(item, mut int) []iso.Finding {
	load()
	return run(item, mut-1, false) // case numbering of the c04 family: 0 is the item itself
}

// KindStats returns items and mutants per corpus kind.
func KindStats() map[string][2]int {
	load()
	out := map[string][2]int{}
	for _, it := range corpus {
		x := out[it.Kind]
		x[0]++
		x[1] += countOf(it)
		out[it.Kind] = x
	}
	return out
}

// guessFields finds the length / count fields of a reference-encoded collection, tuple or UDT
// value: big-endian 4-byte (2-byte in v2 collections) numbers that are small or -1; the bytes in
// between are payload. The encodings come from the reference serializer, so this recovers its
// layout; a wrong guess only changes which mutants are tried.
func guessFields(b []byte, short bool) [][2]int {
	var out [][2]int
	i := 0
	payloadStart := -1
	flush := func(end int) {
		if payloadStart >= 0 && end > payloadStart {
			out = append(out, [2]int{payloadStart, end - payloadStart})
		}
		payloadStart = -1
	}
	for i < len(b) {
		if short && i+2 <= len(b) {
			v := int(binary.BigEndian.Uint16(b[i:]))
			if v <= len(b) {
				flush(i)
				out = append(out, [2]int{i, 2})
				i += 2
				// the announced payload
				if v > 0 && i+v <= len(b) && v <= 16 {
					out = append(out, [2]int{i, v})
					i += v
				}
				continue
			}
		}
		if !short && i+4 <= len(b) {
			v := int32(binary.BigEndian.Uint32(b[i:]))
			if v == -1 || (v >= 0 && int(v) <= len(b)) {
				flush(i)
				out = append(out, [2]int{i, 4})
				i += 4
				continue
			}
		}
		if payloadStart < 0 {
			payloadStart = i
		}
		i++
	}
	flush(len(b))
	return out
}
