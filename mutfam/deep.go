package mutfam

import (
	"bytes"
	"fmt"

	"github.com/datastax/go-cassandra-native-protocol/datacodec"
	"github.com/datastax/go-cassandra-native-protocol/datatype"
	"github.com/datastax/go-cassandra-native-protocol/primitive"

	"verif/iso"
)

// deep nesting: the longest legal chains of nested type descriptors within 1 MiB, and deeply
// nested collection values.
var deepDepths = []int{1000, 65536, 262144, 524287}

func nested(kind uint16, depth int) []byte {
	// list<list<...<int>>>: each level is the 2-byte option id; map needs key+value
	var b bytes.Buffer
	for i := 0; i < depth; i++ {
		b.Write([]byte{byte(kind >> 8), byte(kind)})
		if kind == 0x0021 { // map<int, ...>
			b.Write([]byte{0x00, 0x09})
		}
		if kind == 0x0031 { // tuple of one field
			b.Write([]byte{0x00, 0x01})
		}
	}
	b.Write([]byte{0x00, 0x09})
	return b.Bytes()
}

func init() {
	kinds := []uint16{0x0020, 0x0022, 0x0021, 0x0031}
	iso.Register(&iso.Family{Name: "c04-deep", Items: func() int { return len(kinds) }, Mutants: func(int) int { return len(deepDepths) },
		Run: func(item, mut int) []iso.Finding {
			var fs []iso.Finding
			b := nested(kinds[item], deepDepths[mut])
			it := Item{Kind: "datatype", Name: fmt.Sprintf("kind %#x nested %d deep (%d bytes)", kinds[item], deepDepths[mut], len(b))}
			guard(&fs, it, "deep nesting", []entry{
				{"ReadDataType", func() {
					dt, err := datatype.ReadDataType(bytes.NewReader(b), primitive.ProtocolVersion4)
					if err == nil && deepDepths[mut] <= 65536 {
						// a codec for it, and a decode of an empty collection value
						if c, err := datacodec.NewCodec(dt); err == nil {
							var x interface{}
							_, _ = c.Decode([]byte{0, 0, 0, 0}, &x, primitive.ProtocolVersion4)
						}
					}
				}},
			})
			return fs
		}})
}
